// Witness TU: instantiates the lock-free ring queues and both channel wrappers so that the
// header-only templates are analysed independently of what the library happens to use.
#include <photon/common/lockfree_queue.h>
using MPMC  = LockfreeMPMCRingQueue<int, 16>;
using BATCH = LockfreeBatchMPMCRingQueue<int, 16>;
using SPSC  = LockfreeSPSCRingQueue<int, 16>;
template class LockfreeMPMCRingQueue<int, 16>;
template class LockfreeBatchMPMCRingQueue<int, 16>;
template class LockfreeSPSCRingQueue<int, 16>;
template class photon::common::RingChannel<MPMC>;
template class photon::common::RingChannel<SPSC>;
template class photon::common::FlexRingChannel<FlexLockfreeMPMCRingQueue<int>>;
void verif_witness_lockfree(MPMC& m, BATCH& b, SPSC& s, photon::common::RingChannel<MPMC>& c1,
                            photon::common::RingChannel<SPSC>& c2,
                            photon::common::FlexRingChannel<FlexLockfreeMPMCRingQueue<int>>& c3) {
    int v = 0, buf[4] = {0};
    m.send<ThreadPause>(v); v = m.recv<ThreadPause>();
    b.send<ThreadPause>(v); v = b.recv<ThreadPause>(); b.send_batch<ThreadPause>(buf, 4); b.recv_batch<ThreadPause>(buf, 4);
    s.send<ThreadPause>(v); v = s.recv<ThreadPause>(); s.send_batch<ThreadPause>(buf, 4); s.recv_batch<ThreadPause>(buf, 4);
    s.produce_push_batch_fully(2, [&](int* p1, size_t n1, int* p2, size_t n2) { (void)p1; (void)n1; (void)p2; (void)n2; });
    c1.send<PhotonPause>(v); c1.send<ThreadPause>(v);
    c2.send<PhotonPause>(v); c2.send<ThreadPause>(v);
    c3.send<PhotonPause>(v); c3.send<ThreadPause>(v);
}
