// Witness TU: instantiates WorkPool::async_call / __async_call_helper and the Awaiter specialisations.
#include <photon/thread/workerpool.h>
void verif_witness_workpool(photon::WorkPool& p) {
    p.async_call(new auto([] {}));
    p.call([] {});
    p.call<photon::StdContext>([] {});
    p.call<photon::PhotonContext>([] {});
}
