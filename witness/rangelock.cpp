// Witness TU for common/range-lock.h (all members are inline; the helper template is instantiated by its uses).
#include <photon/common/range-lock.h>
void verif_witness_rangelock(RangeLock& l) {
    uint64_t o = 0, n = 1;
    l.try_lock_wait(o, n);
    l.unlock(o, n);
    auto h = l.lock(0, 1);
    l.adjust_range(h, 0, 2);
    l.unlock(h);
    ScopedRangeLock s(l, 4, 4);
}
