// Witness TU: instantiates the ObjectCache / ExpireContainer templates and ObjectCacheV2.
#include <string>
#include <photon/common/expirecontainer.h>
#include <photon/common/objectcachev2.h>
template class ExpireContainer<int, int>;
template class ExpireList<int>;
template class ObjectCache<int, std::string*>;
template class ObjectCacheV2<int, std::string*>;
void verif_witness_objcache(ObjectCache<int, std::string*>& oc, ObjectCacheV2<int, std::string*>& v2,
                            ExpireContainer<int, int>& ec, ExpireList<int>& el) {
    auto b = oc.borrow(1, [] { return new std::string("x"); });
    auto p = oc.acquire(2, [] { return new std::string("y"); });
    (void)p; oc.release(2);
    b.recycle(true);
    auto it = ec.insert(1, 2); (void)it; ec.find(1); ec.refresh(*ec.begin());
    el.keep_alive(3, true);
    auto c = v2.borrow(1, [] { return new std::string("z"); });
    auto d = v2.borrow(2);
    auto e = v2.update(3, [] { return new std::string("w"); });
    d = std::move(e);
}
