// Witness TU: instantiates every member of photon::channel<T> so that the header-only
// template is analysed independently of what the repository's tests happen to use.
#include <string>
#include <photon/thread/go.h>
template class photon::channel<int>;
template class photon::channel<std::string>;
