// Witness TU: messages with every field type of rpc/serialize.h, serialized and deserialized.
#include <photon/rpc/serialize.h>
using namespace photon::rpc;
struct Inner : public Message {
    int a; string s;
    PROCESS_FIELDS(a, s);
};
struct Plain : public Message {
    int x; buffer b; aligned_buffer ab; fixed_buffer<int> fb; array<int> arr; string str;
    iovec_array iovs; aligned_iovec_array aiovs; Inner inner; sorted_map<string, Inner> sm;
    PROCESS_FIELDS(x, b, ab, fb, arr, str, iovs, aiovs, inner, sm);
};
struct Checked : public CheckedMessage<> {
    int x; buffer b; string str;
    PROCESS_FIELDS(x, b, str);
};
void verif_witness_serialize(Plain& p, Checked& c, iovector* iov) {
    SerializerIOV s1; s1.serialize(p);
    SerializerIOV s2; s2.serialize(c);
    DeserializerIOV d1; auto* q = d1.deserialize<Plain>(iov);
    DeserializerIOV d2; auto* r = d2.deserialize<Checked>(iov);
    if (q) { auto it = q->sm.find(string("k")); if (it != q->sm.end()) { (void)it->second.a; } for (auto& kv : q->sm) { (void)kv; } }
    (void)r;
    sorted_map_factory<string, Inner> f; Inner in; f.append(string("k"), in); f.assign_to(&p.sm);
}
