#include <photon/fs/path.h>
#include <cstdio>
int main() {
    const char* cases[] = {"a/../b", "dir/sub/../file", ".a/..", "./a/..", "a/b/../../c", "...//..", ".git/../x", "a/./../b"};
    for (auto c : cases) printf("%-20s level_valid=%d  (expected 1: every prefix stays at/below base)\n", c, (int)photon::fs::path_level_valid(c));
}
