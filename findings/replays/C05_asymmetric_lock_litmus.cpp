// Replay F5: litmus on the real photon::asymmetric_spinLock (thread.cpp is included verbatim)
#include "/repo/thread/thread.cpp"
#include <thread>
#include <cstdio>
#include <pthread.h>
using photon::asymmetric_spinLock;
static asymmetric_spinLock L;
static volatile uint64_t counter = 0;      // protected by L
static std::atomic<int> inside{0};
static std::atomic<uint64_t> overlaps{0};
static std::atomic<bool> stop{false};
static void pin(int cpu) { cpu_set_t s; CPU_ZERO(&s); CPU_SET(cpu, &s); pthread_setaffinity_np(pthread_self(), sizeof(s), &s); }
int main() {
    setvbuf(stdout, nullptr, _IONBF, 0);
    uint64_t nf = 0, nb = 0;
    std::thread fg([&]{ pin(2);
        while (!stop.load(std::memory_order_relaxed)) {
            L.foreground_lock();
            if (inside.fetch_add(1, std::memory_order_relaxed) != 0) overlaps.fetch_add(1, std::memory_order_relaxed);
            counter = counter + 1; nf++;
            inside.fetch_sub(1, std::memory_order_relaxed);
            L.foreground_unlock();
        }});
    std::thread bg([&]{ pin(4);
        while (!stop.load(std::memory_order_relaxed)) {
            if (!L.background_try_lock()) continue;
            if (inside.fetch_add(1, std::memory_order_relaxed) != 0) overlaps.fetch_add(1, std::memory_order_relaxed);
            counter = counter + 1; nb++;
            inside.fetch_sub(1, std::memory_order_relaxed);
            L.background_unlock();
        }});
    std::this_thread::sleep_for(std::chrono::seconds(4));
    stop = true; fg.join(); bg.join();
    printf("foreground sections=%llu background sections=%llu sum=%llu counter=%llu lost=%lld overlaps_observed=%llu\n",
        (unsigned long long)nf, (unsigned long long)nb, (unsigned long long)(nf+nb), (unsigned long long)counter,
        (long long)(nf+nb-counter), (unsigned long long)overlaps.load());
}
