// Replay: Request::reset(verb, url, enable_proxy=true) writes past the caller-supplied buffer
#include <photon/net/http/message.h>
#include <cstdio>
#include <cstring>
#include <string>
using namespace photon::net::http;
int main() {
    const int CAP = 256;
    static char area[4096];
    memset(area, 0x5A, sizeof(area));
    std::string host(180, 'h');
    std::string url = "http://" + host + ".example.com/" + std::string(CAP - 21 - 3 - 8, 'p');   // target.size() just below CAP-21-verb
    Request req(area + 1024, CAP);          // capacity CAP at area+1024
    int ret = req.reset(Verb::GET, url, true);
    int over = 0;
    for (int i = 1024 + CAP; i < 4096; i++) if (area[i] != 0x5A) over++;
    printf("reset(enable_proxy=true) ret=%d, bytes modified beyond the %d-byte buffer: %d\n", ret, CAP, over);
    return over ? 1 : 0;
}
