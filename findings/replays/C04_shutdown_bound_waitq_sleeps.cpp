// Replay F6: a thread marked by thread_shutdown() blocks on a semaphore / mutex far beyond the 10ms bound
#include <photon/photon.h>
#include <photon/thread/thread.h>
#include <photon/thread/thread11.h>
#include <cstdio>
using namespace photon;
int main() {
    setvbuf(stdout, nullptr, _IONBF, 0);
    photon::init(INIT_EVENT_NONE, INIT_IO_NONE);
    semaphore sem(0); mutex mtx; mtx.lock();
    uint64_t t_sleep=0, t_sem=0, t_mtx=0; int r_sleep=0, r_sem=0, r_mtx=0, e_sleep=0,e_sem=0,e_mtx=0; int done=0;
    auto th = thread_create11([&]{
        thread_yield();                       // let main mark us as shutting down while we are runnable
        auto t0 = photon::now; r_sleep = thread_usleep(300*1000); e_sleep = errno; t_sleep = photon::now - t0;
        t0 = photon::now; r_sem = sem.wait_interruptible(1, 300*1000); e_sem = errno; t_sem = photon::now - t0;
        t0 = photon::now; r_mtx = mtx.lock(300*1000); e_mtx = errno; t_mtx = photon::now - t0;
        done = 1;
    });
    thread_shutdown(th, true);                // th is READY, not sleeping: only the flag is set
    while (!done) thread_usleep(20*1000);
    printf("after thread_shutdown(th): documented bound = 10ms, errno EPERM=%d\n", EPERM);
    printf("  thread_usleep(300ms)          -> ret=%d errno=%d blocked %llu us\n", r_sleep, e_sleep, (unsigned long long)t_sleep);
    printf("  semaphore.wait(1, 300ms)      -> ret=%d errno=%d blocked %llu us\n", r_sem, e_sem, (unsigned long long)t_sem);
    printf("  mutex.lock(300ms) (held)      -> ret=%d errno=%d blocked %llu us\n", r_mtx, e_mtx, (unsigned long long)t_mtx);
    mtx.unlock();
    photon::fini();
}
