// Replay: Response::set_result(code, reason) writes past the caller-supplied buffer (no capacity test at all)
#include <photon/net/http/message.h>
#include <cstdio>
#include <cstring>
#include <string>
using namespace photon::net::http;
int main() {
    const int CAP = 128;
    static char area[4096];
    memset(area, 0x5A, sizeof(area));
    std::string reason(600, 'r');
    Response resp(area + 1024, CAP);
    int ret = resp.set_result(200, reason);
    int over = 0;
    for (int i = 1024 + CAP; i < 4096; i++) if (area[i] != 0x5A) over++;
    printf("set_result ret=%d, bytes modified beyond the %d-byte buffer: %d\n", ret, CAP, over);
    return over ? 1 : 0;
}
