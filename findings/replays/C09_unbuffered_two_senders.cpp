// Replay: unbuffered channel, 2 senders + 1 receiver on one vCPU
#include <photon/photon.h>
#include <photon/thread/go.h>
#include <photon/thread/thread11.h>
#include <cstdio>
using namespace photon;
int main() {
    photon::init(INIT_EVENT_NONE, INIT_IO_NONE);
    channel<int> ch;
    bool s1=false, s2=false; int got=-1; bool rok=false;
    int done = 0;
    auto t1 = thread_create11([&]{ s1 = ch.send(111, 500*1000); done++; printf("S1 send -> %d errno=%d\n", s1, errno); });
    auto t2 = thread_create11([&]{ rok = ch.recv(got, 500*1000); done++; printf("R recv -> %d val=%d\n", rok, got); });
    auto t3 = thread_create11([&]{ s2 = ch.send(222, 500*1000); done++; printf("S2 send -> %d errno=%d\n", s2, errno); });
    (void)t1;(void)t2;(void)t3;
    while (done < 3) thread_usleep(10*1000);
    int got2=-1; bool r2 = ch.recv(got2, 100*1000);
    printf("second recv -> %d val=%d\n", r2, got2);
    printf("sends reported ok: %d, values received: %d\n", (int)s1+(int)s2, (int)rok + (int)r2);
    photon::fini();
}
