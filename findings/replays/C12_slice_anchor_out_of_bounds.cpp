// Replay F3: hostile sorted_map index -> slice::anchor resolves outside the supplied bytes
#include <photon/rpc/serialize.h>
#include <photon/common/iovector.h>
#include <cstdio>
#include <cstring>
#include <csignal>
#include <cstdlib>
using namespace photon::rpc;
struct Val : public Message { int x = 0; PROCESS_FIELDS(x); };
struct Msg : public Message {
    sorted_map<string, Val> m;
    PROCESS_FIELDS(m);
};
static void on_segv(int) { printf("SIGSEGV while resolving a wire-supplied slice (out-of-bounds read)\n"); _exit(0); }
int main() {
    setvbuf(stdout, nullptr, _IONBF, 0); signal(SIGSEGV, on_segv);
    // Build the wire image by hand: [index bytes][base_buffer bytes][Msg body]
    using VT = sorted_map<string,Val>::ValueType;   // pair<slice,slice>
    VT idx[1];
    idx[0].first  = slice((off_t)1 << 40, 8);        // key slice far outside base_buffer
    idx[0].second = slice(0, 4);
    char base[16]; memset(base, 'k', sizeof(base));
    Msg body;                                         // lengths on the wire; pointers are rewritten by deserialize
    body.m.index.buffer::assign((void*)0xdeadbeef, sizeof(idx));
    body.m.base_buffer.assign((void*)0xdeadbeef, sizeof(base));
    char wire[sizeof(idx) + sizeof(base) + sizeof(Msg)];
    memcpy(wire, idx, sizeof(idx));
    memcpy(wire + sizeof(idx), base, sizeof(base));
    memcpy(wire + sizeof(idx) + sizeof(base), &body, sizeof(Msg));
    IOVector iov; iov.push_back(wire, sizeof(wire));
    DeserializerIOV des;
    auto msg = des.deserialize<Msg>(&iov);
    printf("deserialize -> %p (accepted)\n", (void*)msg);
    if (!msg) return 1;
    printf("index entries=%zu, base_buffer=[%p,+%zu), key slice offset=%lld len=%zu\n", msg->m.index.size(),
           msg->m.base_buffer.addr(), msg->m.base_buffer.size(), (long long)msg->m.index[0].first.offset, msg->m.index[0].first.length);
    auto s = msg->m.index[0].first | msg->m.base_buffer;   // what find()/iteration do
    printf("anchored key ptr=%p which is %lld bytes past the end of the supplied bytes\n", (void*)s.addr(),
           (long long)((char*)s.addr() - (wire + sizeof(wire))));
    string probe("zzz");
    auto it = msg->m.find(probe);                        // lower_bound -> comparator -> reads the anchored key
    (void)it;
    printf("find() returned without fault\n");
}
