// F12: semaphore in out-of-order resume mode: signal() self-deadlocks as soon as the scan finds a satisfiable non-head waiter.
// try_resume() holds q.lock and calls prelocked_thread_interrupt() -> thread::dequeue_ready_atomic() -> SCOPED_LOCK(waitq->lock) (the same spinlock).
#include <photon/photon.h>
#include <photon/thread/thread.h>
#include <photon/thread/thread11.h>
#include <atomic>
#include <cstdio>
#include <thread>
#include <chrono>
#include <cstdlib>
#include <unistd.h>
static std::atomic<int> progress{0};
int main() {
    std::thread wd([] {                       // watchdog on a plain OS thread: the vCPU spins forever if the defect hits
        for (int i = 0; i < 50; i++) { std::this_thread::sleep_for(std::chrono::milliseconds(100)); if (progress.load() == 2) return; }
        printf("FAIL: signal(1) never returned: the vCPU spins on q.lock inside semaphore::try_resume (out-of-order mode); "
               "waiter B (demand 1) stays blocked although the count covers it\n");
        fflush(stdout); _exit(1);
    });
    photon::init(photon::INIT_EVENT_DEFAULT, photon::INIT_IO_NONE);
    photon::semaphore sem(0, /*in_order_resume=*/false);
    int got_b = -2;
    auto a = photon::thread_enable_join(photon::thread_create11([&] { sem.wait(5, 1000 * 1000); }));   // head waiter: demand 5 (times out later)
    photon::thread_yield();
    auto b = photon::thread_enable_join(photon::thread_create11([&] { got_b = sem.wait(1, 3000 * 1000); }));  // second waiter: demand 1
    photon::thread_yield();
    progress = 1;
    sem.signal(1);                            // head (5) is not satisfiable, B (1) is: the out-of-order scan must wake B
    progress = 2;
    photon::thread_join(b); photon::thread_join(a);
    wd.join();
    printf("signal returned; B.wait(1) -> %d\n", got_b);
    photon::fini();
    return got_b == 0 ? 0 : 1;
}
