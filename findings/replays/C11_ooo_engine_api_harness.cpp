// Replay F2 against the real OOO engine (rpc/out-of-order-execution.cpp), driven through its public API
// exactly as StubImpl does: do_issue = send, do_completion = read header (yields the tag), do_collect = read body
// into the *target's* context with the target's own deadline as stream timeout.
#include <photon/photon.h>
#include <photon/thread/thread11.h>
#include <photon/rpc/out-of-order-execution.h>
#include <cstdio>
#include <map>
using namespace photon; using namespace photon::rpc;
struct Ctx : OutOfOrderContext { const char* name; char* body; };
static uint64_t follower_tag = 0;
static bool follower_returned = false; static uint64_t t_follower_ret = 0;
static int touched_after_return = 0;
struct Wire {
    int do_send(OutOfOrderContext*) { return 0; }
    int do_recv_header(OutOfOrderContext* a) {           // leader: the next response on the wire is the follower's
        thread_usleep(20*1000);
        a->tag = follower_tag; return 0; }
    int do_recv_body(OutOfOrderContext* a_) {            // like StubImpl::do_recv_body: bounded by the target's deadline
        auto a = (Ctx*)a_;
        uint64_t remain = a->timeout.timeout();          // m_stream->timeout(args->timeout.timeout())
        thread_usleep(remain);                           // body never arrives in time -> the read times out
        if (follower_returned) { touched_after_return++;
            printf("  reader: still inside do_collect(ctx of '%s') %llu us after that call returned; next the engine writes ctx->ret, ctx->phaselock, ctx->phase\n",
                   a->name, (unsigned long long)(photon::now - t_follower_ret)); }
        return -1; }
} wire;
static void setup(Ctx& c, OutOfOrder_Execution_Engine* e, const char* name, uint64_t tmo) {
    c.engine = e; c.name = name; c.timeout = Timeout(tmo);
    c.do_issue.bind(&wire, &Wire::do_send); c.do_completion.bind(&wire, &Wire::do_recv_header); c.do_collect.bind(&wire, &Wire::do_recv_body);
}
int main() {
    setvbuf(stdout, nullptr, _IONBF, 0);
    photon::init(INIT_EVENT_NONE, INIT_IO_NONE);
    auto e = new_ooo_execution_engine();
    int done = 0;
    auto leader = thread_create11([&]{ Ctx c; setup(c, e, "leader", 2000*1000);
        ooo_issue_operation(c); int r = ooo_wait_completion(c); printf("leader   call -> %d errno=%d\n", r, errno); done++; });
    auto follower = thread_create11([&]{ Ctx c; setup(c, e, "follower", 100*1000);
        ooo_issue_operation(c); follower_tag = c.tag;
        int r = ooo_wait_completion(c);
        follower_returned = true; t_follower_ret = photon::now;
        printf("follower call -> %d errno=%d (its context and buffers are dead from here on)\n", r, errno); done++; });
    (void)leader; (void)follower;
    while (done < 2) thread_usleep(50*1000);
    printf("accesses to a returned call's context by the reader: %d\n", touched_after_return);
    photon::fini();
}
