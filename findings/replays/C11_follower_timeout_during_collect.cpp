// Replay F2 against the real rpc::Stub (StubImpl + OooEngine) over a unix socket.
// Server: receives two requests, answers the *second* caller's tag with the header only and then stalls.
// Caller L (long deadline) becomes the reader; caller F (short deadline) is parked as follower.
// F's deadline falls while L is inside do_recv_body(F's context). F returns; L later writes F's dead context.
#include <photon/photon.h>
#include <photon/thread/thread11.h>
#include <photon/net/socket.h>
#define protected public
#include <photon/rpc/rpc.h>
#undef protected
#include <photon/common/alog.h>
#include <cstdio>
#include <cstring>
#include <cstdlib>
#include <unistd.h>
using namespace photon; using namespace photon::rpc;
static const char* PATH = "/tmp/replay/f2b.sock";
static int changed_bytes = 0; static long first_off = -1;
__attribute__((noinline)) static void poison_and_watch() {
    volatile unsigned char area[48*1024];
    for (size_t i = 0; i < sizeof(area); i++) area[i] = 0x5A;      // cover the dead frames of the call that just returned
    thread_usleep(300*1000);                                       // let the reader finish with "our" context
    for (size_t i = 0; i < sizeof(area); i++) if (area[i] != 0x5A) { changed_bytes++; if (first_off < 0) first_off = (long)i; }
}
int main(int argc, char** argv) {
    int ndummy = argc > 1 ? atoi(argv[1]) : 0; int when = argc > 2 ? atoi(argv[2]) : 0;
    setvbuf(stdout, nullptr, _IONBF, 0);
    log_output_level = ALOG_INFO;  // the ERROR lines show the order: follower gives up, then the reader fails inside its context
    photon::init(INIT_EVENT_EPOLL, INIT_IO_NONE);
    unlink(PATH);
    auto server = net::new_uds_server(true);
    server->bind(PATH); server->listen(8);
    struct H { static int serve(void*, net::ISocketStream* s) {
        Header h[2]; char body[64];
        for (int i = 0; i < 2; i++) { if (s->read(&h[i], sizeof(Header)) != sizeof(Header)) return -1; if (h[i].size) s->read(body, h[i].size); }
        Header r; r.function = h[1].function; r.tag = h[1].tag; r.size = 16;      // answer the 2nd request (the follower's) ...
        s->write(&r, sizeof(r));                                                   // ... header only; the body never comes
        thread_usleep(1500*1000);
        return 0; } };
    server->set_handler({&H::serve, (void*)nullptr});
    server->start_loop(false);
    auto client = net::new_uds_client();
    auto sock = client->connect(PATH);
    auto stub = new_rpc_stub(sock, true);
    int done = 0;
    auto mk_dummies = [&]{ for (int i = 0; i < ndummy; i++) thread_create11([i]{ thread_usleep((400 + 37*i)*1000); }); thread_yield(); };
    if (when == 0) mk_dummies();
    thread_create11([&]{ IOVector req, resp; char rq[8] = "leader", rs[16]; req.push_back(rq, 8); resp.push_back(rs, 16);
        int r = stub->do_call(FunctionID(1,1), &req, &resp, Timeout(1000*1000)); printf("L: call -> %d errno=%d\n", r, errno); done++; });
    thread_create11([&]{
        thread_usleep(10*1000);                                                    // make sure L is the reader
        if (when == 1) mk_dummies();
        { IOVector req, resp; char rq[8] = "followr", rs[16]; req.push_back(rq, 8); resp.push_back(rs, 16);
          int r = stub->do_call(FunctionID(1,1), &req, &resp, Timeout(150*1000));
          printf("F: call -> %d errno=%d  (returned; its request/response/context are out of scope now)\n", r, errno); }
        poison_and_watch();
        printf("F: bytes of its own stack modified by someone else after the call returned: %d (first at offset %ld)\n", changed_bytes, first_off);
        done++; });
    while (done < 2) thread_usleep(50*1000);
    delete stub; delete client; delete server;
    photon::fini();
}
