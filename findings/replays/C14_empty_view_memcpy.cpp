// Replay F8: memcpy_to on an empty (default) iovector_view reads iov[0] through a null pointer
#include <photon/common/iovector.h>
#include <cstdio>
#include <csignal>
#include <unistd.h>
static void on_segv(int) { printf("SIGSEGV in iov_iterator(iovector_view): reads v.iov[0] of an empty view\n"); _exit(0); }
int main() {
    setvbuf(stdout, nullptr, _IONBF, 0); signal(SIGSEGV, on_segv);
    char buf[8];
    iovector_view empty;                       // iov=nullptr, iovcnt=0 : the empty byte sequence
    printf("sum()=%zu\n", empty.sum());
    size_t n = empty.memcpy_to(buf, sizeof(buf));   // flat-model answer: 0
    printf("memcpy_to -> %zu (expected 0)\n", n);
    // an owning vector that is empty: its view points one past / into unused slots
    IOVector v; 
    n = v.memcpy_to(buf, sizeof(buf));
    printf("IOVector empty memcpy_to -> %zu\n", n);
}
