// Replay F9: an interrupt delivered while the target is yielding is reported again by a later, full-length sleep
#include <photon/photon.h>
#include <photon/thread/thread.h>
#include <photon/thread/thread11.h>
#include <cstdio>
#include <cstring>
using namespace photon;
int main() {
    setvbuf(stdout, nullptr, _IONBF, 0);
    photon::init(INIT_EVENT_NONE, INIT_IO_NONE);
    int done = 0;
    auto th = thread_create11([&]{
        int y; int n = 0;
        while ((y = thread_yield()) == 0) n++;                 // runnable, never sleeping
        printf("thread_yield() reported the interrupt: %d (%s) after %d yields\n", y, strerror(y), n);
        auto t0 = photon::now;
        int r = thread_usleep(200*1000);                        // nobody interrupts this sleep
        int e = errno; auto dt = photon::now - t0;
        printf("thread_usleep(200ms) -> ret=%d errno=%d (%s) after %llu us  (expected ret=0: it slept the full time and was not interrupted)\n",
               r, e, strerror(e), (unsigned long long)dt);
        done = 1;
    });
    thread_yield(); thread_yield();
    thread_interrupt(th, EINTR);                                // th is READY: only error_number is set
    while (!done) thread_usleep(10*1000);
    photon::fini();
}
