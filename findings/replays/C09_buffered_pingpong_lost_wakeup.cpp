// Replay F7: buffered channels (capacity 1), ping-pong between two vCPUs, no timeouts.
// Each message is the only one in flight, so a missed wake-up is a permanent hang.
#include <photon/photon.h>
#include <photon/thread/go.h>
#include <thread>
#include <atomic>
#include <cstdio>
#include <chrono>
#include <unistd.h>
using namespace photon;
int main() {
    setvbuf(stdout, nullptr, _IONBF, 0);
    channel<int> ping(1), pong(1);
    std::atomic<long> rounds{0};
    const long N = 5000000;
    std::thread a([&]{ photon::init(INIT_EVENT_NONE, INIT_IO_NONE);
        int v; for (long i = 0; i < N; i++) { if (!ping.send((int)i)) break; if (!pong.recv(v)) break; rounds++; }
        photon::fini(); });
    std::thread b([&]{ photon::init(INIT_EVENT_NONE, INIT_IO_NONE);
        int v; for (long i = 0; i < N; i++) { if (!ping.recv(v)) break; if (!pong.send(v)) break; }
        photon::fini(); });
    long last = -1; int stalled = 0;
    for (int tick = 0; tick < 1200; tick++) {
        std::this_thread::sleep_for(std::chrono::milliseconds(100));
        long r = rounds.load();
        if (r >= N) break;
        if (r == last) { if (++stalled >= 30) {   // 3 s without progress
            printf("HANG after %ld round trips: ping.size=%zu pong.size=%zu -- a blocked recv() with an item available\n", r, ping.size(), pong.size());
            _exit(0); } }
        else stalled = 0;
        last = r;
    }
    printf("completed %ld round trips\n", rounds.load());
    a.join(); b.join();
}
