"""C16 — File adaptors (alignment contract + clipping clause, DESIGN.md §5 C16)."""
import re
from sa.facts import AnalysisBroken, strip_targs
from sa import analysis as an
from sa import rules as K

UNITS = ['fs/aligned-file.cpp', 'fs/xfile.cpp', 'fs/virtual-file.cpp']
FLOOR = 38
P = 'C16'
CLAIM = ('Decides for fs/aligned-file.cpp and fs/xfile.cpp: (1) every request AlignedFileAdaptor forwards to the underlying file is either on '
         'the fast path guarded by the alignment test of the request (and of the memory when memory alignment is requested), or has its '
         'offset drawn from {aligned_begin_offset, aligned_end_offset} +/- alignment, its length from {aligned_length, alignment} and its '
         'buffer from the adaptor\'s own aligned allocation (or a slice of it at an aligned displacement); (2) all three composite files '
         'reject offsets outside [0, size), clip the count to the fixed size before splitting, forward each part with the part\'s own '
         'length/offset (stripe: multiplied back) and advance the buffer by the part\'s length after every part, returning the clipped '
         'count. Data equality with a plain file and the read-modify-write arithmetic are NOT decided.')
A = 'photon::fs::AlignedFileAdaptor'
ALO = r'\(?rs\.aligned_(begin|end)_offset\(\)( [+-] this->m_alignment)?\)?'
PLEN = r'^(x|__begin\d+)(?:\.|->)length$'
POFF = r'^(x|__begin\d+)(?:\.|->)offset$'
ALEN = r'(rs\.aligned_length\(\)|this->m_alignment)'


def rs_name(f):
    """the function's range-split local (the rules speak about *that* object, whatever it is called)"""
    n = [d['name'] for d in f.decls if d['kind'] == 'local' and not d['name'].startswith('__') and re.search(r'(^|::)(range_split\w*|RangeSplit)$', d.get('type') or '')]
    if len(set(n)) != 1:
        raise AnalysisBroken('C16: %s has %d range-split locals (expected 1)' % (f.nname, len(set(n))))
    return n[0]


def norm(f, s):
    return re.sub(r'(?<![\w.>])%s(?=\.)' % re.escape(rs_name(f)), 'rs', s or '')


def expand(f, i, depth=0):
    return norm(f, _expand(f, i, depth))


def _expand(f, i, depth=0):
    s = f.show(i)
    if depth > 3:
        return s
    for e in [f.x(j) for j in f.subtree(i)]:
        if e is not None and e['k'] == 'ref' and f.decls[e['decl']]['kind'] == 'local':
            vi = f.value_init(e['decl'])
            if vi is not None and vi >= 0 and f.decls[e['decl']]['name'] != rs_name(f):
                s = re.sub(r'(?<![\w>\.])%s(?!\w)' % re.escape(e['name']), _expand(f, vi, depth + 1).replace('\\', '\\\\'), s)
    return s


def aligned(R, prog):
    fns = [f for f in prog.funcs.values() if (f.rec or '') == A and f.kind == 'method']
    n_fast = n_slow = 0
    for f in sorted(fns, key=lambda f: f.line):
        fwd = [e for e in f.exprs if e['k'] == 'call' and e.get('ctype') == 'member' and 'recv' in e and (f.path(e['recv']) or '') == 'this->m_file' and
               re.match(r'^p(read|write)(v2?)?(_mutable)?$', strip_targs(e.get('fn') or '').split('::')[-1])]
        if not fwd:
            continue
        G = K.build_f(R, prog, f)
        slc = lambda ev: ev.kind == 'call' and (ev.callee() or '').endswith('::slice') and len(ev.e['args']) == 3
        head = lambda ev: slc(ev) and re.match(r'^%s$' % ALEN, norm(f, ev.arg_show(0))) and ev.arg_show(1) == '0'
        tail = lambda ev: slc(ev) and re.match(r'^%s$' % ALEN, norm(f, ev.arg_show(0))) and re.match(r'^\(\w+\.sum\(\) - this->m_alignment\)$', ev.arg_show(1) or '')
        other = lambda ev: slc(ev) and not head(ev) and not tail(ev)
        seen = an.SeenTracker([('view@head', head, ('view@tail',)), ('view@tail', tail, ('view@head',)), ('view@other', other, ('view@head', 'view@tail'))])
        res = an.run(G, [seen, an.GuardTracker(lambda k: 'is_aligned' in k or 'm_align_memory' in k or 'iov_align_check' in k)])
        params = [f.decls[d]['name'] for d in f.j['params']]
        short = f.nname.split('::')[-1]
        for nid, idx, ev, states in res.at(lambda ev: ev.kind == 'call' and ev.e in fwd):
            op = ev.callee().split('::')[-1]
            args = [ev.arg_show(i) for i in range(len(ev.e['args']))]
            vec = 'v' in op
            off_i = 2
            off = expand(f, ev.e['args'][off_i])
            if all(a in params for a in args):
                n_fast += 1
                key = '%s.K6:AlignedFileAdaptor::%s:fast-path(%s)-requires-aligned-request' % (P, short, op)
                bad = [st for st in states if not ('G:rs.is_aligned()=T' in [norm(f, k) for k in st] and ('G:this->m_align_memory=F' in st or
                       any(re.match(r'^G:(rs\.is_aligned_ptr\(\w+\)|this->iov_align_check\(\w+\))=T$', norm(f, k)) for k in st)))]
                (R.violated if bad else R.held)(P + '.K6', key, f.id, ev.loc(), 'caller\'s own (buf,count,offset) forwarded only if the request (and, if asked, the memory) is aligned' +
                                                  ('; reaching state %s' % K.fmt_state(bad[0]) if bad else ''))
                continue
            n_slow += 1
            key = '%s.K11:AlignedFileAdaptor::%s:%s-args-from-aligned-classes' % (P, short, op)
            probs = []
            if not re.match(r'^%s$' % ALO, off):
                probs.append('offset `%s` is not aligned_begin/end_offset (+/- alignment)' % off)
            if not vec:
                ln = expand(f, ev.e['args'][1])
                if not re.match(r'^%s$' % ALEN, ln):
                    probs.append('length `%s` is not aligned_length()/m_alignment' % ln)
                b = expand(f, ev.e['args'][0])
                if not (re.match(r'^this->mem_alloc\(rs\.aligned_length\(\)\)$', b) or
                        re.match(r'^\(\(this->mem_alloc\(rs\.aligned_length\(\)\) \+ %s\) - rs\.aligned_begin_offset\(\)\)$' % ALO, b)):
                    probs.append('buffer `%s` is not the aligned allocation (or an aligned displacement into it)' % b)
                else:
                    mm = re.match(r'^\(\(this->mem_alloc\(rs\.aligned_length\(\)\) \+ (.*)\) - rs\.aligned_begin_offset\(\)\)$', b)
                    if mm and mm.group(1) != off:
                        probs.append('buffer displacement `%s` differs from the file offset `%s`' % (mm.group(1), off))
                    if not mm and 'aligned_begin_offset()' not in off:
                        probs.append('allocation start used for file offset `%s`' % off)
            else:
                b = args[0]
                m = re.match(r'^(\w+)\.iov(ec\(\))?$', b or '')
                okb = False
                if m:
                    v = m.group(1)
                    # an IOVector built on the adaptor's allocator and grown by aligned_length ...
                    grown = any(e['k'] == 'call' and strip_targs(e.get('fn') or '').endswith('::push_back') and f.path(e['recv']) == v and
                                re.match(r'^%s$' % ALEN, norm(f, f.show(e['args'][0]))) for e in f.exprs) and \
                        any(e['k'] == 'declstmt' and any(f.decls[x['decl']]['name'] == v and x.get('init') is not None and 'm_allocator' in f.show(x['init']) for x in e['vars']) for e in f.exprs)
                    # ... or a view most recently sliced out of it at the displacement that belongs to this file offset
                    want = 'S:view@head' if 'aligned_begin_offset()' in off and 'm_alignment' not in off else 'S:view@tail' if re.search(r'aligned_end_offset\(\) - this->m_alignment', off) else None
                    sliced = want is not None and all(want in st for st in states)
                    okb = grown or sliced
                if not okb:
                    probs.append('iovec `%s` is neither the adaptor\'s aligned IOVector nor an aligned slice of it' % b)
            (R.violated if probs else R.held)(P + '.K11', key, f.id, ev.loc(), '; '.join(probs) if probs else 'offset=%s from the aligned classes' % off)
    if n_fast < 4 or n_slow < 8:
        R.broken.append('C16: expected >= 4 fast-path and >= 8 slow-path forwards in AlignedFileAdaptor, found %d / %d' % (n_fast, n_slow))


def composite(R, prog):
    pios = [f for f in prog.funcs.values() if f.nname.endswith('::pio') and f.file.endswith('fs/xfile.cpp') and f.blocks]
    names = sorted(set(f.nname for f in pios))
    R.require(len(names) >= 3, 'C16: expected pio() of FixedSizeLinearFile, VariableSizeLinearFile and StripeFile, found %s' % names)
    seen_cls = set()
    for f in sorted(pios, key=lambda f: f.line):
        cls = f.nname.split('::')[-2]
        if cls in seen_cls:
            continue
        seen_cls.add(cls)
        G = K.build_f(R, prog, f)
        pn = [f.decls[d]['name'] for d in f.j['params']]
        buf, count, offset = pn[2], pn[3], pn[4]
        sub = lambda ev: ev.kind == 'call' and not ev.e.get('fn') and 'calleeExpr' in ev.e and '->*' in ev.f.show(ev.e['calleeExpr'])
        adv = lambda ev: ev.kind == 'binop' and ev.e['op'] == '+=' and ev.path(ev.e['l']) == buf
        clip = lambda ev: ev.kind == 'binop' and ev.e['op'] == '=' and ev.path(ev.e['l']) == count and re.match(r'^\(this->m_size - %s\)$' % offset, ev.show(ev.e['r']) or '')
        split = lambda ev: ev.kind == 'construct' and re.search(r'range_split', ev.callee() or '') and not ev.e.get('copy')
        seen = an.SeenTracker([('clipped', clip), ('called', sub, ('advanced',)), ('advanced', adv, ('called',))])
        res = an.run(G, [seen, an.GuardTracker(lambda k: offset in k or 'ret' in k)])
        K.check_at(R, P + '.K10', G, res, split,
                   require=lambda st, ev: ('G:%s < 0=F' % offset) in st and ('G:%s < this->m_size=T' % offset) in st and
                   ('S:clipped' in st or ('G:(%s + %s) <= this->m_size=T' % (offset, count)) in st) and ev.arg_path(0) == offset and ev.arg_path(1) == count,
                   key_fn=lambda ev, cls=cls: '%s.K10:%s::pio:validated-and-clipped-before-split' % (P, cls),
                   describe=lambda ev: 'offset in [0,size) and count clipped to the fixed size before the range is split', min_sites=1, what='range split')

        def part_args(st, ev):
            a = [ev.arg_show(i) for i in range(3)]
            third = a[2]
            t = ev.f.x(ev.f.skip(ev.e['args'][2]))
            if t is not None and t['k'] == 'ref':
                vi = ev.f.value_init(t['decl'])
                if vi is not None and vi >= 0:
                    third = ev.f.show(vi)
            return (a[0] == buf and re.match(PLEN, a[1] or '') and (re.match(POFF, third or '') or re.match(r'^rs\.multiply\(.*, ' + POFF[1:-1] + r'\)$', norm(ev.f, third))) and
                    re.match(PLEN, a[1]).group(1) == re.search(POFF[1:-1], third).group(1) and 'S:called' not in st)
        K.check_at(R, P + '.K10', G, res, sub, part_args,
                   key_fn=lambda ev, cls=cls: '%s.K10:%s::pio:part-forwarded-with-its-own-extent' % (P, cls),
                   describe=lambda ev: 'each part is forwarded as (buf, x.length, x.offset) and the buffer was advanced since the previous part', min_sites=1, what='sub-file call')
        K.check_at(R, P + '.K10', G, res, adv, require=lambda st, ev: re.match(PLEN, ev.show(ev.e['r']) or '') and 'S:called' in st,
                   key_fn=lambda ev, cls=cls: '%s.K10:%s::pio:buffer-advanced-by-part-length' % (P, cls),
                   describe=lambda ev: 'buf += x.length after each forwarded part', min_sites=1)
        K.check_at(R, P + '.K10', G, res, lambda ev: ev.kind == 'return' and ev.depth == 0 and ev.f.const(ev.e['sub']) is None,
                   require=lambda st, ev: ev.path(ev.e['sub']) == count and 'S:called' not in st,
                   key_fn=lambda ev, cls=cls: '%s.K10:%s::pio:returns-clipped-count' % (P, cls),
                   describe=lambda ev: 'success returns the (clipped) count after the last part advanced the buffer', min_sites=1)
        K.check_at(R, P + '.K6', G, res, lambda ev: ev.kind == 'return' and ev.depth == 0 and ev.f.const(ev.e['sub']) == -1,
                   require=lambda st, ev: True, key_fn=lambda ev, cls=cls: '%s.K6:%s::pio:error-exits' % (P, cls), describe=lambda ev: 'error exit', min_sites=2)
        # a short part is an error
        K.check_at(R, P + '.K6', G, res, adv, require=lambda st, ev: any(re.match(r'^G:(\w+|\[.*\]) < ' + PLEN[1:-1] + '=F$', k) for k in st),
                   key_fn=lambda ev, cls=cls: '%s.K6:%s::pio:short-part-is-an-error' % (P, cls),
                   describe=lambda ev: 'the loop continues only if the sub-file transferred the whole part', min_sites=1)


def vectored(R, prog):
    """VirtualFile gives the composite files their vectored operations: element by element (nocopy) or through one bounce buffer (copy)."""
    V = 'photon::fs::VirtualFile::'
    f = prog.find(V + 'piov_nocopy')
    G = K.build_f(R, prog, f)
    pf, poff = K.param(f, 0), K.param(f, 3)                 # (f, iov, iovcnt, offset)
    sub = lambda ev: ev.kind == 'call' and not ev.e.get('fn') and 'calleeExpr' in ev.e and '->*' in ev.f.show(ev.e['calleeExpr'])
    ELEM = r'^((?:\w+)(?:\.|->))iov_(base|len)$'
    advo = lambda ev: ev.kind == 'binop' and ev.e['op'] == '+=' and ev.path(ev.e['l']) == poff
    accs = set(ev.path(ev.e['l']) for _, _, ev in G.events() if ev.kind == 'binop' and ev.e['op'] == '+=' and ev.path(ev.e['l']) != poff and re.match(ELEM, ev.show(ev.e['r']) or ''))
    acc = K.one(accs, 'byte counter', f)
    advc = lambda ev: ev.kind == 'binop' and ev.e['op'] == '+=' and ev.path(ev.e['l']) == acc
    seen = an.SeenTracker([('called', sub, ('advo', 'advc')), ('advo', advo), ('advc', advc)])
    res = an.run(G, [seen, an.GuardTracker(lambda k: True)])

    def elem_args(st, ev):
        a = [ev.arg_show(i) or '' for i in range(3)]
        m0, m1 = re.match(ELEM, a[0]), re.match(ELEM, a[1])
        return bool(m0 and m1 and m0.group(1) == m1.group(1) and m0.group(2) == 'base' and m1.group(2) == 'len' and a[2] == poff and
                    ('S:called' not in st or ('S:advo' in st and 'S:advc' in st)))
    K.check_at(R, P + '.K10', G, res, sub, elem_args, key_fn=lambda ev: P + '.K10:VirtualFile::piov_nocopy:element-forwarded-at-running-offset',
               describe=lambda ev: 'each element is forwarded as (iov_base, iov_len, offset) after offset and the byte count were advanced past the previous element', min_sites=1, what='(this->*f)(...)')
    for lam, tag, nm in ((advo, 'advo', 'offset'), (advc, 'advc', 'count')):
        K.check_at(R, P + '.K10', G, res, lam, require=lambda st, ev, tag=tag: 'S:called' in st and ('S:' + tag) not in st and re.match(ELEM, ev.show(ev.e['r']) or '') and (ev.show(ev.e['r']) or '').endswith('iov_len'),
                   key_fn=lambda ev, nm=nm: '%s.K10:VirtualFile::piov_nocopy:%s-advanced-by-element-length' % (P, nm),
                   describe=lambda ev: 'advanced by the element length, once per forwarded element', min_sites=1)
    K.check_at(R, P + '.K6', G, res, advo, require=lambda st, ev: any(re.match(r'^G:(\w+|\[.*\]) < .*iov_len=F$', k) for k in st),
               key_fn=lambda ev: P + '.K6:VirtualFile::piov_nocopy:short-element-is-an-error', describe=lambda ev: 'the walk continues only if the whole element was transferred', min_sites=1)
    K.check_at(R, P + '.K10', G, res, lambda ev: ev.kind == 'return' and ev.depth == 0 and ev.f.const(ev.e['sub']) is None,
               require=lambda st, ev: ev.path(ev.e['sub']) == acc and ('S:called' not in st or ('S:advo' in st and 'S:advc' in st)),
               key_fn=lambda ev: P + '.K10:VirtualFile::piov_nocopy:returns-accumulated-count', describe=lambda ev: 'success returns the accumulated byte count', min_sites=1)
    # the default vectored path of every composite (piov -> piov_copy) keeps the sub-file's own byte count; the element-wise
    # walk turns a short (clipped) element into -1, so it must not be reachable from that path
    strict = V + 'piov_nocopy'
    reach = K.may_reach(prog, {strict}, funcs=[g for g in prog.funcs.values() if g.file.endswith(('fs/virtual-file.cpp', 'fs/virtual-file.h'))])
    for nm in ('piov', 'piov_copy'):
        g = prog.find(V + nm)
        bad = g.name in reach or strip_targs(g.name) in reach
        (R.violated if bad else R.held)(P + '.K9', '%s.K9:VirtualFile::%s:clipping-path-never-uses-the-strict-walk' % (P, nm), g.id, '%s:%d' % (g.file, g.line),
                                         'piov_nocopy reports -1 for a short element; a composite clips at its end, so the default vectored path must not reach it' +
                                         (' (it does)' if bad else ''))
    # bounce-buffer variant
    f = prog.find(V + 'piov_copy')
    G = K.build_f(R, prog, f)
    poff = K.param(f, 3)
    res = an.run(G, [an.GuardTracker(lambda k: True), an.SeenTracker([('gathered', lambda ev: ev.kind == 'call' and (ev.callee() or '').endswith('::memcpy_to'))])])
    cnt = K.one(K.locals_assigned_from_call(f, r'::sum$'), 'total size of the vector', f)
    rd = K.one(K.locals_assigned_from_call(f, r'VirtualFile::pread$') | K.locals_assigned_from_call(f, r'IFile::pread$'), 'result of the bounce read', f)
    K.check_at(R, P + '.K11', G, res, lambda ev: ev.kind == 'call' and (ev.callee() or '').endswith('::memcpy_from'),
               require=lambda st, ev: ev.arg_path(1) == rd and (('G:%s <= 0=F' % rd) in st or ('G:0 < %s=T' % rd) in st),
               key_fn=lambda ev: P + '.K11:VirtualFile::piov_copy:scatter-exactly-what-was-read', describe=lambda ev: 'the caller\'s vector receives exactly the bytes the bounce read returned (> 0)', min_sites=1)
    bounce = lambda ev: ev.kind == 'call' and (ev.callee() or '').split('::')[-1] in ('pread', 'pwrite') and len(ev.e.get('args', [])) == 3 and ev.arg_path(1) == cnt
    K.check_at(R, P + '.K11', G, res, bounce,
               require=lambda st, ev: ev.arg_path(2) == poff and ((ev.callee() or '').endswith('pread') or 'S:gathered' in st),
               key_fn=lambda ev: '%s.K11:VirtualFile::piov_copy:bounce-%s-covers-the-whole-vector-at-offset' % (P, (ev.callee() or '').split('::')[-1]),
               describe=lambda ev: 'one bounce transfer of sum(iov) bytes at the caller\'s offset (writes: after gathering the vector)', min_sites=2, what='bounce pread/pwrite')


def run(R, prog, tier):
    R.guard(vectored, R, prog)
    R.guard(aligned, R, prog)
    R.guard(composite, R, prog)
