"""C09 — Go-style channel (DESIGN.md §5 C09)."""
import re
from sa.facts import AnalysisBroken, strip_targs
from sa import analysis as an
from sa import rules as K

UNITS = ['witness/go_channel.cpp']
FLOOR = 60
P = 'C09'
CLAIM = ('Decides for photon::channel<T> (witness instantiations channel<int>, channel<std::string>): (1) rendezvous-slot typestate: the slot is '
         'filled only when known empty and taken/cleared only when known full within the current critical section (facts die at every condvar '
         'wait); a send that filled the slot reports failure only after reclaiming it; (2) slot fields are accessed only under the channel '
         'mutex; (3) buffered mode: waiter counters are incremented/decremented in pairs on every exit, a semaphore is signalled only after a '
         'successful push/pop and always when a partner is registered, a waiter re-examines the queue after registering and before sleeping; '
         'recv reports closed only after a failed pop; close publishes the flag before notifying and notifies both sides.')
REC = 'photon::channel'
PTR, RDY = 'm_handoff_ptr', 'm_handoff_ready'


def fld(ev):
    return ev.e.get('field', '') if ev.kind == 'member' else ''


def wfield(ev):
    w = K.written_member(ev)
    return w[0].split('::')[-1] if w else None


def is_cv_wait(ev):
    return ev.kind == 'call' and ev.callee() == 'photon::condition_variable::wait'


def slot_rules(R, prog):
    names = ['unbuffered_send', 'unbuffered_try_send', 'unbuffered_recv', 'unbuffered_try_recv']
    for nm in names:
        fs = prog.find('photon::channel::' + nm, all=True)
        for f in K._dedupe(fs):
            inst = re.search(r'channel<.*>(?=::\w+$)', f.name).group(0)
            G = K.build_f(R, prog, f)
            lt = an.LockTracker()
            gt = an.GuardTracker(lambda k: True, kill_calls=('photon::condition_variable::wait',))
            fill = lambda ev: wfield(ev) == RDY and ev.f.const(ev.e['r']) == 1
            clear = lambda ev: wfield(ev) == RDY and ev.f.const(ev.e['r']) == 0
            seen = an.SeenTracker([('filled', fill, ('reclaimed',)), ('reclaimed', clear, ('filled',))])
            res = an.run(G, [lt, gt, seen])
            fn = 'photon::%s::%s' % (inst, nm)
            # K3: slot fields only under the mutex
            K.check_at(R, P + '.K3', G, res, lambda ev: ev.kind == 'member' and ev.e['name'] in (PTR, RDY),
                       require=lambda st, ev: an.has_lock(st, 'this->m_unbuf_mutex'),
                       key_fn=lambda ev, fn=fn: '%s.K3:%s:%s' % (P, fn, ev.e['name']),
                       describe=lambda ev: 'slot field %s under this->m_unbuf_mutex' % ev.e['name'], min_sites=2, what='slot access')
            # K6 typestate: fill requires empty
            K.check_at(R, P + '.K6', G, res,
                       target=lambda ev: fill(ev) or (wfield(ev) == PTR and ev.f.const(ev.e['r']) != 0),
                       require=lambda st, ev: 'G:this->m_handoff_ready=F' in st,
                       key_fn=lambda ev, fn=fn: '%s.K6:%s:fill-requires-empty' % (P, fn),
                       describe=lambda ev: 'slot written (%s) only when known empty in this critical section' % ev.show()[:50],
                       min_sites=2 if 'send' in nm else 0, what='slot fill')
            # take / clear requires full
            def takes(ev):
                if clear(ev) or (wfield(ev) == PTR and ev.f.const(ev.e['r']) == 0):
                    return True
                if ev.kind == 'delete' and (ev.path(ev.e['sub']) or '').endswith(PTR):
                    return True
                if ev.kind == 'unop' and ev.e['op'] == '*' and (ev.path(ev.e['sub']) or '').endswith(PTR):
                    return True
                return False
            K.check_at(R, P + '.K6', G, res, takes,
                       require=lambda st, ev: 'G:this->m_handoff_ready=T' in st,
                       key_fn=lambda ev, fn=fn: '%s.K6:%s:take-requires-full' % (P, fn),
                       describe=lambda ev: 'slot taken/cleared (%s) only when known full' % ev.show()[:50],
                       min_sites=3 if nm != 'unbuffered_try_send' else 0, what='slot take')
            if nm == 'unbuffered_send':
                K.check_at(R, P + '.K6', G, res, lambda ev: ev.kind == 'return' and ev.depth == 0 and ev.f.const(ev.e['sub']) == 0,
                           require=lambda st, ev: 'S:filled' not in st,
                           key_fn=lambda ev, fn=fn: '%s.K6:%s:failure-after-fill-reclaims' % (P, fn),
                           describe=lambda ev: '`return false` after the slot was filled only if the value was reclaimed', min_sites=3, what='return false')
            if nm in ('unbuffered_recv', 'unbuffered_try_recv'):
                K.check_at(R, P + '.K6', G, res, lambda ev: ev.kind == 'return' and ev.depth == 0 and ev.f.const(ev.e['sub']) == 1,
                           require=lambda st, ev: 'S:reclaimed' in st,
                           key_fn=lambda ev, fn=fn: '%s.K6:%s:true-means-taken' % (P, fn),
                           describe=lambda ev: '`return true` only after taking the slot', min_sites=1, what='return true')
                K.check_at(R, P + '.K7', G, res, lambda ev: ev.kind == 'return' and ev.depth == 0 and ev.f.const(ev.e['sub']) == 1,
                           require=lambda st, ev: True, key_fn=lambda ev, fn=fn: '%s.K7:%s:ret' % (P, fn), describe=lambda ev: 'reachable', min_sites=1)
            # registration counters paired (DEFER)
            if nm in ('unbuffered_send', 'unbuffered_recv'):
                cnt = 'm_senders_waiting' if 'send' in nm else 'm_receivers_waiting'
                wr = lambda ev, cnt=cnt: (K.atomic_op(ev) or (None, ''))[1] in ('operator++', 'fetch_add') and (K.atomic_op(ev)[0] or '').endswith(cnt)
                dec = lambda ev, cnt=cnt: (K.atomic_op(ev) or (None, ''))[1] in ('operator--', 'fetch_sub') and (K.atomic_op(ev)[0] or '').endswith(cnt)
                res2 = an.run(G, [an.SeenTracker([('reg', wr), ('dereg', dec, ('reg',))])])
                K.check_at(R, P + '.K4', G, res2, lambda ev: ev.kind == 'exit',
                           require=lambda st, ev: 'S:reg' not in st,
                           key_fn=lambda ev, fn=fn, cnt=cnt: '%s.K4:%s:%s-paired' % (P, fn, cnt),
                           describe=lambda ev: 'waiter registration undone on every exit', min_sites=1, what='exit')
                K.check_at(R, P + '.K4', G, res2, wr, require=lambda st, ev: True,
                           key_fn=lambda ev, fn=fn, cnt=cnt: '%s.K4:%s:%s-registered' % (P, fn, cnt), describe=lambda ev: 'registers as waiter', min_sites=1, what='registration')


def buffered(R, prog):
    for nm in ('buffered_send', 'buffered_recv', 'buffered_try_send', 'buffered_try_recv'):
        fs = prog.find('photon::channel::' + nm, all=True)
        send = 'send' in nm
        mycnt, othercnt = ('m_senders_waiting', 'm_receivers_waiting') if send else ('m_receivers_waiting', 'm_senders_waiting')
        mysem, othersem = ('m_send_sem', 'm_recv_sem') if send else ('m_recv_sem', 'm_send_sem')
        qop = 'push' if send else 'pop'
        for f in K._dedupe(fs):
            inst = re.search(r'channel<.*>(?=::\w+$)', f.name).group(0)
            fn = 'photon::%s::%s' % (inst, nm)
            G = K.build_f(R, prog, f)
            reg = lambda ev: (K.atomic_op(ev) or (None, ''))[1] in ('operator++', 'fetch_add') and (K.atomic_op(ev)[0] or '').endswith(mycnt)
            dereg = lambda ev: (K.atomic_op(ev) or (None, ''))[1] in ('operator--', 'fetch_sub') and (K.atomic_op(ev)[0] or '').endswith(mycnt)
            qtouch = lambda ev: ev.kind == 'call' and (ev.callee() or '').split('::')[-1] in ('push', 'pop', 'read_available', 'empty', 'full', 'write_available') \
                and 'm_queue' in (ev.recv_path() or '')
            sig_other = lambda ev: ev.kind == 'call' and ev.callee() == 'photon::semaphore::signal' and (ev.recv_path() or '').endswith(othersem)
            sig_mine = lambda ev: ev.kind == 'call' and ev.callee() == 'photon::semaphore::signal' and (ev.recv_path() or '').endswith(mysem)
            sleep = lambda ev: ev.kind == 'call' and (ev.callee() or '').startswith('photon::semaphore::wait') and (ev.recv_path() or '').endswith(mysem)
            seen = an.SeenTracker([('reg', reg, ('recheck',)), ('dereg', dereg, ('reg',)), ('recheck', qtouch), ('signalled', sig_other)])
            # what was learnt about the shared queue before sleeping is stale after the sleep
            gt = an.GuardTracker(lambda k: True, kill=lambda ev, key: sleep(ev) and 'm_queue' in key)
            res = an.run(G, [seen, gt])
            okq = re.compile(r'^G:this->m_queue->%s\(.*\)=T$' % qop)
            K.check_at(R, P + '.K6', G, res, sig_other,
                       require=lambda st, ev: any(okq.match(x) for x in st),
                       key_fn=lambda ev, fn=fn: '%s.K6:%s:signal-after-%s' % (P, fn, qop),
                       describe=lambda ev: 'partner semaphore signalled only after a successful %s' % qop, min_sites=1, what='signal')
            for nid, idx, ev in G.events():
                if sig_mine(ev):
                    R.violated(P + '.K6', '%s.K6:%s:signals-own-side' % (P, fn), f.id, ev.loc(), 'signals its own side semaphore %s' % ev.show()[:60])
            # success: partner notified whenever one is registered
            K.check_at(R, P + '.K7', G, res, lambda ev: ev.kind == 'return' and ev.depth == 0 and ev.f.const(ev.e['sub']) == 1,
                       require=lambda st, ev: any(okq.match(x) for x in st) and ('S:signalled' in st or
                                                  any(re.match(r'^G:\[?this->%s(\.load\(.*\))?\]? <= 0=T$' % othercnt, x) or re.match(r'^G:\[?this->%s(\.load\(.*\))?\]?=F$' % othercnt, x) for x in st)),
                       key_fn=lambda ev, fn=fn: '%s.K7:%s:success-notifies-registered-partner' % (P, fn),
                       describe=lambda ev: '`return true` only after %s succeeded, and the partner was signalled unless none is registered' % qop,
                       min_sites=1, what='return true')
            if nm == 'buffered_recv':
                closed_ret = lambda ev: ev.kind == 'return' and ev.depth == 0 and ev.f.const(ev.e['sub']) == 0
                K.check_at(R, P + '.K8', G, res, closed_ret,
                           require=lambda st, ev: any(re.match(r'^G:this->m_queue->pop\(.*\)=F$', x) for x in st) or
                           any(('errno == 110' in x or 'expired()' in x) and x.endswith('=T') for x in st),
                           key_fn=lambda ev, fn=fn: '%s.K8:%s:false-only-after-failed-pop' % (P, fn),
                           describe=lambda ev: 'recv reports closed only after a pop that failed since it last slept (a woken receiver re-examines the buffer: items sent before close() are drained); timeouts excepted', min_sites=2, what='return false')
            if nm in ('buffered_send', 'buffered_recv'):
                K.check_at(R, P + '.K4', G, res, lambda ev: (ev.kind == 'return' and ev.depth == 0) or ev.kind == 'exit',
                           require=lambda st, ev: 'S:reg' not in st,
                           key_fn=lambda ev, fn=fn: '%s.K4:%s:%s-paired' % (P, fn, mycnt),
                           describe=lambda ev: 'waiter registration undone before every exit', min_sites=3, what='exits')
                K.check_at(R, P + '.K7', G, res, sleep,
                           require=lambda st, ev: 'S:reg' in st and 'S:recheck' in st,
                           key_fn=lambda ev, fn=fn: '%s.K7:%s:register-recheck-sleep' % (P, fn),
                           describe=lambda ev: 'sleep only after registering AND re-examining the queue (no lost wake-up)', min_sites=1, what='semaphore wait')
            if nm == 'buffered_send':
                K.check_at(R, P + '.K6', G, res, lambda ev: ev.kind == 'return' and ev.depth == 0 and ev.f.const(ev.e['sub']) == 0,
                           require=lambda st, ev: not any(okq.match(x) for x in st),
                           key_fn=lambda ev, fn=fn: '%s.K6:%s:false-means-not-enqueued' % (P, fn),
                           describe=lambda ev: '`return false` never after a successful push', min_sites=2, what='return false')


def close_rule(R, prog):
    for f in K._dedupe(prog.find('photon::channel::close', all=True)):
        inst = re.search(r'channel<.*>(?=::\w+$)', f.name).group(0)
        fn = 'photon::%s::close' % inst
        G = K.build_f(R, prog, f)
        pub = lambda ev: (K.atomic_op(ev) or (None, ''))[1] in ('exchange', 'store', 'operator=') and (K.atomic_op(ev)[0] or '').endswith('m_closed')
        note = lambda ev: ev.kind == 'call' and (ev.callee() or '').split('::')[-1] in ('notify_all', 'notify_one', 'signal', 'broadcast') and \
            strip_targs(ev.e.get('rec') or '') in ('photon::condition_variable', 'photon::semaphore')
        seen = an.SeenTracker([('closed', pub),
                               ('n_send_cv', lambda ev: note(ev) and (ev.recv_path() or '').endswith('m_unbuf_send_cv')),
                               ('n_recv_cv', lambda ev: note(ev) and (ev.recv_path() or '').endswith('m_unbuf_recv_cv')),
                               ('n_send_sem', lambda ev: note(ev) and (ev.recv_path() or '').endswith('m_send_sem')),
                               ('n_recv_sem', lambda ev: note(ev) and (ev.recv_path() or '').endswith('m_recv_sem'))])
        res = an.run(G, [seen, an.LockTracker(), an.GuardTracker(lambda k: True)])
        K.check_at(R, P + '.K8', G, res, note, require=lambda st, ev: 'S:closed' in st,
                   key_fn=lambda ev: '%s.K8:%s:publish-before-notify' % (P, fn), describe=lambda ev: 'closed flag published before %s' % ev.show()[:50],
                   min_sites=4, what='notifications')
        K.check_at(R, P + '.K2', G, res, lambda ev: note(ev) and 'unbuf' in (ev.recv_path() or ''),
                   require=lambda st, ev: an.has_lock(st, 'this->m_unbuf_mutex'),
                   key_fn=lambda ev: '%s.K2:%s:notify-under-mutex' % (P, fn), describe=lambda ev: 'condvar notified under the channel mutex', min_sites=2, what='cv notify')
        K.check_at(R, P + '.K7', G, res, lambda ev: ev.kind == 'exit',
                   require=lambda st, ev: 'S:closed' not in st or 'G:this->m_closed.exchange(true, std::memory_order_acq_rel)=T' in st or
                   any(re.match(r'^G:this->m_closed\.exchange\(.*\)=T$', x) for x in st) or
                   ('S:n_send_cv' in st and 'S:n_recv_cv' in st) or
                   (('S:n_send_sem' in st or any(('G:%s <= 0=T' % n) in st for n in K.locals_defined_only_by(f, r'^this->m_senders_waiting\.load\(.*\)$'))) and
                    ('S:n_recv_sem' in st or any(('G:%s <= 0=T' % n) in st for n in K.locals_defined_only_by(f, r'^this->m_receivers_waiting\.load\(.*\)$')))),
                   key_fn=lambda ev: '%s.K7:%s:wakes-both-sides' % (P, fn), describe=lambda ev: 'first close wakes both sides', min_sites=1, what='exit')


def run(R, prog, tier):
    R.guard(slot_rules, R, prog)
    R.guard(buffered, R, prog)
    R.guard(close_rule, R, prog)
