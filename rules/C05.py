"""C05 — Thread lifecycle (DESIGN.md §5 C05)."""
import re
from sa.facts import AnalysisBroken, strip_targs
from sa import analysis as an
from sa import rules as K
from rules import common as C

UNITS = ['thread/thread.cpp', 'thread/thread-pool.cpp']
FLOOR = 40
P = 'C05'
CLAIM = ('Decides for thread/thread.cpp and thread-pool.cpp: (1) the standby queue is pushed only under its lock, the run queue is mutated only '
         'through AtomicRunQ (whose constructor takes and destructor releases the foreground lock) or by the stealer holding the victim\'s '
         'background/standby lock plus the thread lock (try-lock only); (2) every reassignment of thread::vcpu is bracketed by nthreads-- on the '
         'old and nthreads++ on the new vCPU, creation increments and death decrements once; (3) the stack is released only by thread::dispose, '
         'which is referenced only from die() (selected iff not joinable, the joinable branch handing the thread lock to the deferred unlock) and '
         'thread_join (after state==DONE was observed under the thread lock, the return value read before); die() publishes DONE and notifies '
         'under the thread lock before leaving the run queue; migration re-tests READY/vcpu under AtomicRunQ + thread lock; (4) the store->load '
         'hand-shake of asymmetric_spinLock has sequentially consistent order (Dekker); (5) thread-pool control fields are accessed under the '
         'control block mutex.')
VCPU = 'photon::thread::vcpu'
NTH = 'photon::vcpu_t0::nthreads'
STATE = 'photon::thread::state'


def atom(ev):
    return K.atomic_op(ev) or (None, '', [])


def counters(R, prog):
    wv = lambda ev: (K.written_member(ev) or ('',))[0] == VCPU
    dec = lambda ev: atom(ev)[1] in ('operator--', 'fetch_sub') and (atom(ev)[0] or '').endswith('nthreads')
    inc = lambda ev: atom(ev)[1] in ('operator++', 'fetch_add') and (atom(ev)[0] or '').endswith('nthreads')
    movers = ['photon::do_thread_migrate', 'photon::ws_scan_q', 'photon::ws_scan_standbyq']
    K.k9_who_writes(R, P + '.K9', prog, VCPU, set(movers) | {'photon::thread_create', 'photon::vcpu_init'}, min_sites=5,
                    funcs=prog.in_file('thread/thread.cpp'))
    for fn in movers:
        G = K.build(R, prog, fn)
        seen = an.SeenTracker([('dec', dec, ()), ('moved', wv, ('dec',)), ('inc', inc, ('moved',))])
        res = an.run(G, [seen, an.LockTracker()])
        K.check_at(R, P + '.K13', G, res, wv, require=lambda st, ev: 'S:dec' in st and 'S:moved' not in st,
                   key_fn=lambda ev, fn=fn: '%s.K13:%s:dec-old-before-move' % (P, fn),
                   describe=lambda ev: 'old vCPU nthreads-- precedes th->vcpu reassignment', min_sites=1, what='vcpu write')
        K.check_at(R, P + '.K13', G, res, lambda ev: ev.kind == 'exit' or dec(ev) or (ev.kind == 'return' and ev.depth == 0),
                   require=lambda st, ev: 'S:moved' not in st,
                   key_fn=lambda ev, fn=fn: '%s.K13:%s:inc-new-after-move' % (P, fn),
                   describe=lambda ev: 'new vCPU nthreads++ follows every th->vcpu reassignment before the next move / exit', min_sites=2, what='exit')
        # who holds what while moving
        moved = lambda ev: (ev.path(ev.e['l']) or '').rsplit('->', 1)[0]          # the thread whose vcpu field is written
        victim = K.param(G.root, 1) if fn == 'photon::ws_scan_standbyq' else None   # (v, u): u is the victim vCPU
        need = {'photon::do_thread_migrate': lambda st, ev: an.has_lock(st, 'RUNQ', 'fg') and an.has_lock(st, moved(ev) + '->lock'),
                'photon::ws_scan_q': lambda st, ev: an.has_lock(st, moved(ev) + '->lock'),
                'photon::ws_scan_standbyq': lambda st, ev: an.has_lock(st, moved(ev) + '->lock') and an.has_lock(st, '%s->standbyq.lock' % victim)}[fn]
        K.check_at(R, P + '.K2', G, res, wv, require=lambda st, ev, need=need: need(st, ev),
                   key_fn=lambda ev, fn=fn: '%s.K2:%s:move-under-locks' % (P, fn),
                   describe=lambda ev: 'thread moved between vCPUs only with its thread lock (and the queue lock) held', min_sites=1, what='vcpu write')
    # only stealable threads are moved (a sleeper still linked in the victim's sleep queue must be resumed by its own vCPU)
    for fn in ('photon::ws_scan_q', 'photon::ws_scan_standbyq'):
        G = K.build(R, prog, fn)
        f = G.root
        # under the victim queue lock the list cannot change: front()/next() re-evaluation names the same thread
        pure = {'intrusive_list::front', 'intrusive_list_node::next', 'photon::thread::stealable'}
        MUT = ('pop_front', 'pop_back', 'push_back', 'push_front', 'erase', 'pop', 'remove_from_list', 'insert_before', 'insert_tail')

        def list_changed(ev, key):
            # a mutation of the list makes front()/next() name another thread
            if ev.kind != 'call' or (ev.callee() or '').split('::')[-1] not in MUT:
                return False
            r = ev.recv_path()
            return r is not None and (r + '.front()' in key or r + '->front()' in key or r + '->next()' in key)
        res = an.run(G, [an.LockTracker(), an.GuardTracker(lambda k: 'stealable' in k or 'try_lock' in k, pure=pure, kill=list_changed)])

        def stealable(st, ev, f=f):
            tgt = ev.path(ev.e['l']) or ''
            th = tgt.rsplit('->', 1)[0]
            names = {th}
            for k in st:
                if k.startswith('D:%s=' % th):
                    names.add(k[len('D:%s=' % th):])
            return any(('G:%s->stealable()=T' % n) in st for n in names)
        K.check_at(R, P + '.K6', G, res, wv, stealable,
                   key_fn=lambda ev, fn=fn: '%s.K6:%s:only-stealable-threads-move' % (P, fn),
                   describe=lambda ev: 'a thread changes vCPU in the stealer only if stealable() held for it (work stealing allowed and not linked in a sleep queue)',
                   min_sites=1, what='vcpu write')
    # ws_scan_q requires the victim queue lock at both call sites
    for caller, lock in (('photon::ws_scan_runq', ('%s->runq_lock', 'bg')), ('photon::ws_scan_standbyq', ('%s->standbyq.lock', None))):
        G = K.build(R, prog, caller)
        lock = (lock[0] % K.param(G.root, 1), lock[1])         # (v, u): the victim is the second parameter
        res = an.run(G, [an.LockTracker()])
        K.check_at(R, P + '.K2', G, res, lambda ev: ev.kind == 'call' and ev.callee() == 'photon::ws_scan_q',
                   require=lambda st, ev, lock=lock: an.has_lock(st, lock[0], lock[1]),
                   key_fn=lambda ev, caller=caller: '%s.K2:%s:call(ws_scan_q)' % (P, caller),
                   describe=lambda ev, lock=lock: 'victim queue scanned under %s' % (lock,), min_sites=1, what='ws_scan_q')
    # the stealer must only try-lock thread locks (ABBA with die()/interrupt())
    for fn in ('photon::ws_scan_q', 'photon::ws_scan_standbyq'):
        f = prog.find(fn)
        for e in f.exprs:
            if e['k'] == 'call' and strip_targs(e.get('fn') or '') == 'photon::spinlock::lock':
                R.violated(P + '.K2', '%s.K2:%s:blocking-thread-lock' % (P, fn), f.id, f.locl(e['loc']), 'stealer blocks on a spinlock while holding the victim queue lock (ABBA)')
        R.held(P + '.K2', '%s.K2:%s:try-lock-only' % (P, fn), f.id, '%s:%d' % (f.file, f.line), 'no blocking spinlock::lock() in the scan', nontrivial=False)
    # creation / death
    G = K.build(R, prog, 'photon::thread_create', sig='thread_entry')
    res = an.run(G, [an.SeenTracker([('inc', inc), ('vcpu', wv), ('inserted', lambda ev: ev.kind == 'call' and ev.callee() == 'photon::AtomicRunQ::insert_tail')]), an.LockTracker()])
    K.check_at(R, P + '.K13', G, res, lambda ev: ev.kind == 'return' and ev.depth == 0 and ev.f.const(ev.e['sub']) is None,
               require=lambda st, ev: all(t in st for t in ('S:inc', 'S:vcpu', 'S:inserted')),
               key_fn=lambda ev: P + '.K13:photon::thread_create:counted-and-queued',
               describe=lambda ev: 'a created thread is assigned a vCPU, counted once and inserted into the run queue', min_sites=1, what='return th')
    K.check_at(R, P + '.K2', G, res, lambda ev: ev.kind == 'call' and ev.callee() == 'photon::AtomicRunQ::insert_tail',
               require=lambda st, ev: an.has_lock(st, 'RUNQ', 'fg'),
               key_fn=lambda ev: P + '.K2:photon::thread_create:insert-under-runq-lock', describe=lambda ev: 'run-queue insertion under the foreground lock', min_sites=1)


def runq_discipline(R, prog):
    f = prog.find('photon::AtomicRunQ::AtomicRunQ')
    ok = any(e['k'] == 'call' and strip_targs(e.get('fn') or '') == 'photon::asymmetric_spinLock::foreground_lock' for e in f.exprs)
    (R.held if ok else R.violated)(P + '.K4', P + '.K4:photon::AtomicRunQ::AtomicRunQ:takes-foreground-lock', f.id, '%s:%d' % (f.file, f.line),
                                    'constructor calls foreground_lock()' if ok else 'constructor no longer takes the run-queue foreground lock')
    G = K.build(R, prog, 'photon::AtomicRunQ::~AtomicRunQ')
    res = an.run(G, [an.SeenTracker([('unlock', lambda ev: ev.kind == 'call' and ev.callee() == 'photon::asymmetric_spinLock::foreground_unlock'),
                                     ('publish', lambda ev: ev.kind == 'binop' and ev.e['op'] == '=' and (ev.path(ev.e['l']) or '').endswith('*this->pc'))])])
    K.check_at(R, P + '.K4', G, res, lambda ev: ev.kind == 'exit', require=lambda st, ev: 'S:unlock' in st,
               key_fn=lambda ev: P + '.K4:photon::AtomicRunQ::~AtomicRunQ:releases-foreground-lock', describe=lambda ev: 'destructor releases the foreground lock on every path', min_sites=1)
    K.check_at(R, P + '.K8', G, res, lambda ev: ev.kind == 'call' and ev.callee() == 'photon::asymmetric_spinLock::foreground_unlock',
               require=lambda st, ev: True, key_fn=lambda ev: P + '.K8:photon::AtomicRunQ::~AtomicRunQ:unlock', describe=lambda ev: 'unlock site', min_sites=1)
    # run-queue node mutators on the current/idle thread only inside AtomicRunQ members (or the stealer/idler on its own queue)
    MUT = ('insert_tail', 'insert_before', 'insert_after', 'insert_list_before', 'insert_list_tail', 'insert_list_after', 'remove_from_list')
    allowed_outside = {'photon::try_work_stealing': 'the idler appends stolen threads to its own run queue',
                       'photon::ws_scan_q': 'removal from the victim queue under its background/standby lock (K2 above)'}
    n = 0
    for f in prog.in_file('thread/thread.cpp'):
        for e in f.exprs:
            if e['k'] == 'call' and e.get('ctype') == 'member' and strip_targs(e.get('fn') or '').startswith('intrusive_list_node') and \
               strip_targs(e['fn']).split('::')[-1] in MUT and 'photon::thread' in (e.get('fn') or ''):
                n += 1
                owner = f.nname if f.kind != 'lambda' else strip_targs((f.parent or '').split('(')[0])
                key = '%s.K9:%s:runq-mutation(%s)' % (P, owner, strip_targs(e['fn']).split('::')[-1])
                site = f.locl(e['loc'])
                if (f.rec or '') == 'photon::AtomicRunQ':
                    R.held(P + '.K9', key, f.id, site, 'thread-list mutation inside an AtomicRunQ member (foreground lock held by construction)', nontrivial=False)
                elif owner in allowed_outside:
                    R.exception(P + '.K9', owner, allowed_outside[owner])
                    R.held(P + '.K9', key, f.id, site, allowed_outside[owner], nontrivial=False)
                else:
                    R.violated(P + '.K9', key, f.id, site, 'thread list node mutated outside AtomicRunQ')
    if n < 6:
        R.broken.append('C05.K9: expected >= 6 thread-list mutator calls, found %d' % n)
    # standby queue
    for f in prog.find('photon::vcpu_t::_move_to_standbyq_atomic', all=True):
        G = K.build_f(R, prog, f)
        res = an.run(G, [an.LockTracker()])
        K.check_at(R, P + '.K2', G, res, lambda ev: ev.kind == 'call' and (ev.callee() or '').endswith('::push_back') and 'standbyq' in (ev.recv_path() or ''),
                   require=lambda st, ev: an.has_lock(st, 'this->standbyq.lock'),
                   key_fn=lambda ev, f=f: '%s.K2:photon::vcpu_t::_move_to_standbyq_atomic%s:push-under-lock' % (P, f.sig),
                   describe=lambda ev: 'standby queue pushed under its lock', min_sites=1, what='standbyq.push_back')
    G = K.build(R, prog, 'photon::thread_list::eject_whole_atomic')
    res = an.run(G, [an.LockTracker()])
    K.check_at(R, P + '.K2', G, res, lambda ev: ev.kind == 'call' and ev.callee() == 'photon::thread_list::eject_whole',
               require=lambda st, ev: an.has_lock(st, 'this->lock'),
               key_fn=lambda ev: P + '.K2:photon::thread_list::eject_whole_atomic:under-lock', describe=lambda ev: 'list ejected under its lock', min_sites=1)


def addr_of(ev):
    """name of the function whose address event ev takes (&f), else None"""
    if ev.kind == 'unop' and ev.e['op'] == '&':
        se = ev.f.x(ev.f.skip(ev.e['sub']))
        if se is not None and se['k'] == 'funcref':
            return strip_targs(se.get('fn') or '')
    return None


def death_and_join(R, prog):
    K.k9_who_calls(R, P + '.K9', prog, 'photon::thread::dispose', {'photon::thread::die', 'photon::thread_join'}, min_sites=2,
                   funcs=prog.in_file('thread/thread.cpp'))
    # the stack deallocator is invoked only by dispose
    n = 0
    for f in prog.in_file('thread/thread.cpp'):
        for i, e in enumerate(f.exprs):
            if e['k'] == 'call' and e.get('ctype') == 'operator' and e.get('op') == '()' and 'recv' in e and (f.path(e['recv']) or '') == 'photon::photon_thread_dealloc':
                n += 1
                key = '%s.K9:%s:stack-dealloc' % (P, f.nname)
                (R.held if f.nname == 'photon::thread::dispose' else R.violated)(P + '.K9', key, f.id, f.locl(e['loc']), 'stack deallocator invoked in %s' % f.nname)
    if n < 1:
        R.broken.append('C05.K9: stack deallocator call not found')
    G = K.build(R, prog, 'photon::thread::die')
    setdone = lambda ev: (K.written_member(ev) or ('',))[0] == STATE and ev.kind == 'binop' and (ev.f.x(ev.f.skip(ev.e['r'])) or {}).get('name', '').endswith('DONE')
    seen = an.SeenTracker([('done', setdone), ('notified', lambda ev: ev.kind == 'call' and (ev.callee() or '').endswith('condition_variable::notify_one')),
                           ('dec', lambda ev: atom(ev)[1] in ('operator--', 'fetch_sub') and (atom(ev)[0] or '').endswith('nthreads')),
                           ('left', lambda ev: ev.kind == 'call' and ev.callee() == 'photon::AtomicRunQ::remove_current'),
                           ('pick_dispose', lambda ev: addr_of(ev) == 'photon::thread::dispose'),
                           ('pick_unlock', lambda ev: addr_of(ev) == 'photon::spinlock_unlock')])
    res = an.run(G, [seen, an.LockTracker(), an.GuardTracker(lambda k: True)])
    K.check_at(R, P + '.K2', G, res, setdone, require=lambda st, ev: an.has_lock(st, 'this->lock'),
               key_fn=lambda ev: P + '.K2:photon::thread::die:DONE-under-thread-lock', describe=lambda ev: 'state = DONE published under the thread lock', min_sites=1)
    K.check_at(R, P + '.K8', G, res, lambda ev: ev.kind == 'call' and ev.callee() == 'photon::AtomicRunQ::remove_current',
               require=lambda st, ev: all(t in st for t in ('S:done', 'S:notified', 'S:dec')) and an.has_lock(st, 'this->lock'),
               key_fn=lambda ev: P + '.K8:photon::thread::die:publish-notify-count-before-leaving',
               describe=lambda ev: 'DONE, join notification and nthreads-- precede leaving the run queue, all under the thread lock', min_sites=1)
    sw = lambda ev: ev.kind == 'call' and (ev.callee() or '').endswith('_photon_switch_context_defer_die')
    K.check_at(R, P + '.K6', G, res, sw,
               require=lambda st, ev: ('G:this->is_joinable()=F' in st and 'S:pick_dispose' in st and 'S:pick_unlock' not in st) or
                                      ('G:this->is_joinable()=T' in st and 'S:pick_unlock' in st and 'S:pick_dispose' not in st),
               key_fn=lambda ev: P + '.K6:photon::thread::die:dispose-iff-not-joinable',
               describe=lambda ev: 'deferred action is dispose() iff not joinable, else the thread-lock unlock (stack kept for join)', min_sites=1, what='final switch')
    K.check_at(R, P + '.K2', G, res, sw, require=lambda st, ev: an.has_lock(st, 'this->lock') and 'S:left' in st,
               key_fn=lambda ev: P + '.K2:photon::thread::die:lock-held-until-switch',
               describe=lambda ev: 'thread lock held until the switch away (released/disposed only on the next stack)', min_sites=1)
    # join
    G = K.build(R, prog, 'photon::thread_join', sig='join_handle')
    f = G.root
    res = an.run(G, [an.LockTracker(), an.GuardTracker(lambda k: True, kill_calls=('photon::condition_variable::wait',)),
                     an.SeenTracker([('retval', lambda ev: ev.kind == 'member' and ev.e['name'] == 'retval')])])
    done = lambda st: any(re.match(r'^G:\w+->state == 4=T$', x) for x in st)
    tps = [f.path(e['recv']) for e in f.exprs if e['k'] == 'call' and strip_targs(e.get('fn') or '') == 'photon::thread::dispose' and 'recv' in e]
    R.require(tps and tps[0], 'C05: thread_join no longer calls dispose() on the joined thread')
    tl = tps[0] + '->lock' 
    K.check_at(R, P + '.K6', G, res, lambda ev: ev.kind == 'call' and ev.callee() == 'photon::thread::dispose',
               require=lambda st, ev: done(st) and an.has_lock(st, tl) and 'S:retval' in st,
               key_fn=lambda ev: P + '.K6:photon::thread_join:dispose-after-DONE',
               describe=lambda ev: 'stack released only after state==DONE was observed under the thread lock and the return value was read', min_sites=1)
    K.check_at(R, P + '.K6', G, res, lambda ev: ev.kind == 'member' and ev.e['name'] == 'retval',
               require=lambda st, ev: done(st), key_fn=lambda ev: P + '.K6:photon::thread_join:retval-after-DONE',
               describe=lambda ev: 'return value read only after DONE', min_sites=1)
    K.check_at(R, P + '.K2', G, res, lambda ev: ev.kind == 'call' and ev.callee() == 'photon::condition_variable::wait',
               require=lambda st, ev: an.has_lock(st, tl) and ev.arg_path(0) in (tl, '&' + tl),
               key_fn=lambda ev: P + '.K2:photon::thread_join:wait-on-thread-lock', describe=lambda ev: 'join waits on the thread\'s condvar with the thread lock', min_sites=1)
    # migration
    G = K.build(R, prog, 'photon::do_thread_migrate')
    res = an.run(G, [an.LockTracker(), an.GuardTracker(lambda k: True)])
    th = K.param(G.root, 0)
    K.check_at(R, P + '.K6', G, res, lambda ev: ev.kind == 'call' and ev.callee() == 'photon::AtomicRunQ::remove_from_list',
               require=lambda st, ev: ev.arg_path(0) == th and an.has_lock(st, 'RUNQ', 'fg') and an.has_lock(st, th + '->lock') and
               (('G:%s->state == 0=T' % th) in st or ('G:%s->state=F' % th) in st) and ('G:%s->vcpu == photon::CURRENT->vcpu=T' % th) in st,
               key_fn=lambda ev: P + '.K6:photon::do_thread_migrate:retest-under-locks',
               describe=lambda ev: 'thread leaves the run queue only after READY && same-vCPU was re-tested under AtomicRunQ + thread lock', min_sites=1)


def dekker(R, prog):
    """F5: store(flag A) ... load(flag B) hand-shake needs seq_cst on both or a seq_cst fence in between."""
    cases = [('photon::asymmetric_spinLock::foreground_lock', 'foreground_locked', ('store', 'exchange'), 'background_locked'),
             ('photon::asymmetric_spinLock::background_try_lock', 'background_locked', ('exchange', 'store'), 'foreground_locked')]
    for fn, a, ops, b in cases:
        G = K.build(R, prog, fn, inline=('photon::asymmetric_spinLock::wait_while',))
        sc = lambda o: bool(o) and o[0] == 'seq_cst'
        pub = lambda ev: atom(ev)[1] in ops and (atom(ev)[0] or '').endswith(a) and ev.depth == 0 and (ev.f.const(ev.e['args'][0]) == 1 if ev.e.get('args') else True)
        load_b = lambda ev: atom(ev)[1] == 'load' and (atom(ev)[0] or '').endswith(b) or \
            (atom(ev)[1] == 'load' and ev.depth > 0 and ev.ctx.get('subst', {}).get('x', '').endswith(b))
        unpub = lambda ev: atom(ev)[1] == 'store' and (atom(ev)[0] or '').endswith(a) and ev.e.get('args') and ev.f.const(ev.e['args'][0]) == 0
        seen = an.SeenTracker([('pub_sc', lambda ev: pub(ev) and sc(atom(ev)[2]), ('pub_weak', 'fence')),
                               ('pub_weak', lambda ev: pub(ev) and not sc(atom(ev)[2]), ('pub_sc', 'fence')),
                               ('fence', lambda ev: K.is_fence(ev, 'seq_cst')),
                               ('read', load_b, ('pub_sc', 'pub_weak', 'fence')),     # only the first read after publishing is the hand-shake read
                               ('unpub', unpub, ('pub_sc', 'pub_weak', 'fence'))])
        res = an.run(G, [seen])

        def first_load_ok(st, ev):
            if 'S:pub_weak' not in st and 'S:pub_sc' not in st:
                return True     # load before publishing our flag: not the hand-shake read
            if 'S:fence' in st:
                return True
            return 'S:pub_sc' in st and sc(atom(ev)[2])
        K.check_at(R, P + '.K1', G, res, load_b, first_load_ok,
                   key_fn=lambda ev, fn=fn: '%s.K1:%s:dekker-store-load' % (P, fn),
                   describe=lambda ev, a=a, b=b: 'after publishing %s, the read of %s must be ordered by seq_cst (both ops seq_cst or a seq_cst fence between)' % (a, b),
                   min_sites=1, what='load of the other flag')


def pool(R, prog):
    funcs = [f for f in prog.in_file('thread/thread-pool.cpp')]
    exc = {'photon::ThreadPoolBase::ctor': 'control block not yet published to the pool',
           'photon::ThreadPoolBase::stub': 'the worker reads its own start/arg after wait_for_work() returned them under the lock',
           'photon::ThreadPoolBase::thread_create_ex': None}
    for fld in ('start', 'joinable', 'joining', 'arg'):
        field = 'photon::TPControl::' + fld
        n = 0
        for f in funcs:
            if not any(e['k'] == 'member' and e.get('field') == field for e in f.exprs):
                continue
            if exc.get(f.nname):
                R.exception(P + '.K3', '%s in %s' % (fld, f.nname), exc[f.nname])
                continue
            G = K.build_f(R, prog, f)
            res = an.run(G, [an.LockTracker()])
            for nid, idx, ev, states in res.at(lambda ev: ev.kind == 'member' and ev.e.get('field') == field):
                n += 1
                p = ev.path(ev.x) or ''
                lp = re.sub(r'(->|\.)\w+$', r'\1m_mtx', p)
                key = '%s.K3:%s:%s' % (P, f.nname, fld)
                bad = [st for st in states if not an.has_lock(st, lp)]
                if bad:
                    R.violated(P + '.K3', key, f.id, ev.loc(), 'TPControl::%s accessed without %s; held %s' % (fld, lp, an.held(bad[0])))
                else:
                    R.held(P + '.K3', key, f.id, ev.loc(), 'TPControl::%s under %s' % (fld, lp), nontrivial=bool(states))
        if n < 1:
            R.broken.append('C05.K3: expected >= 1 guarded accesses of TPControl::%s, found %d' % (fld, n))


def run(R, prog, tier):
    R.guard(C.expired_sleepers, R, prog, P)
    R.guard(C.wait_all_covers_every_queue, R, prog, P)
    R.guard(C.interrupt_retest_under_lock, R, prog, P)
    R.guard(counters, R, prog)
    R.guard(runq_discipline, R, prog)
    R.guard(death_and_join, R, prog)
    R.guard(dekker, R, prog)
    R.guard(pool, R, prog)
    R.guard(C.no_yield_under_spinlock, R, prog, P, files=('thread/thread-pool.cpp',), min_sites=3)
