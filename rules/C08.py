"""C08 — WorkPool (DESIGN.md §5 C08)."""
import re
from sa.facts import AnalysisBroken, strip_targs
from sa import analysis as an
from sa import rules as K
from rules import common as C

UNITS = ['thread/workerpool.cpp', 'witness/workpool.cpp']
FLOOR = 25
P = 'C08'
CLAIM = ('Decides for thread/workerpool.{cpp,h} and awaiter.h the ordering facts the exactly-once / return-after-finish contract rests on: '
         '(1) call(): the queued task runs the user callable and only then resumes the caller; do_call enqueues before it suspends and always '
         'suspends; the awaiters pair resume/suspend on the same primitive; (2) the dispatcher\'s on-stack task record is copied by the helper '
         'before the task runs and the dispatcher yields to the new thread before it can overwrite the record; the running-task counter is '
         'incremented before the task starts and decremented after it; (3) a worker leaves main_loop only on an empty (stop) task and only '
         'through the drain loop; the destructor posts one stop marker per vCPU, joins, waits for deregistration and only then destroys the ring; '
         '(4) an async task object is invoked, then deleted, once; (5) the vCPU registry is accessed under the worker lock.')
IMPL = 'photon::WorkPool::impl'


def do_call(R, prog):
    fs = prog.find(IMPL + '::do_call', all=True)
    R.require(len(fs) >= 3, 'C08: expected 3 instantiations of WorkPool::impl::do_call, found %d' % len(fs))
    for f in K._dedupe(fs) if False else fs:
        ctx = re.search(r'do_call<(.*)>$', f.name).group(1)
        G = K.build_f(R, prog, f)
        enq = lambda ev: ev.kind == 'call' and ev.callee() == IMPL + '::enqueue'
        sus = lambda ev: ev.kind == 'call' and (ev.callee() or '').endswith('::suspend')
        res = an.run(G, [an.SeenTracker([('enq', enq), ('susp', sus)])])
        K.check_at(R, P + '.K8', G, res, sus, require=lambda st, ev: 'S:enq' in st,
                   key_fn=lambda ev, ctx=ctx: '%s.K8:impl::do_call<%s>:enqueue-before-suspend' % (P, ctx),
                   describe=lambda ev: 'the task is queued before the caller suspends', min_sites=1, what='suspend')
        K.check_at(R, P + '.K7', G, res, lambda ev: ev.kind == 'exit', require=lambda st, ev: 'S:enq' in st and 'S:susp' in st,
                   key_fn=lambda ev, ctx=ctx: '%s.K7:impl::do_call<%s>:always-waits' % (P, ctx),
                   describe=lambda ev: 'every path enqueues and then waits for completion', min_sites=1, what='exit')
        # the task lambda: user callable, then resume of *this* awaiter
        lams = prog.lambdas_of(f)
        R.require(len(lams) >= 1, 'C08: do_call task lambda not found')
        for lam in lams:
            GL = K.build_f(R, prog, lam)
            pcall = K.param(f, 0)          # the user callable is do_call's parameter, captured by the task lambda
            aw = [d['name'] for d in f.decls if d['kind'] == 'local' and 'Awaiter' in (d.get('type') or '')]
            R.require(len(aw) == 1, 'C08: do_call no longer has exactly one Awaiter local')
            usercall = lambda ev, pcall=pcall: ev.kind == 'call' and ev.e.get('op') == '()' and re.search(r'(^|[.>])%s$' % re.escape(pcall), ev.recv_path() or '')
            resume = lambda ev, aw=aw[0]: ev.kind == 'call' and (ev.callee() or '').endswith('::resume') and re.search(r'(^|[.>])%s$' % re.escape(aw), ev.recv_path() or '')
            resl = an.run(GL, [an.SeenTracker([('ran', usercall), ('resumed', resume)])])
            K.check_at(R, P + '.K8', GL, resl, resume, require=lambda st, ev: 'S:ran' in st and 'S:resumed' not in st,
                       key_fn=lambda ev, ctx=ctx: '%s.K8:impl::do_call<%s>::task:call-before-resume' % (P, ctx),
                       describe=lambda ev: 'the caller is resumed only after the user callable returned, once', min_sites=1, what='resume')
            K.check_at(R, P + '.K7', GL, resl, lambda ev: ev.kind == 'exit', require=lambda st, ev: 'S:ran' in st and 'S:resumed' in st,
                       key_fn=lambda ev, ctx=ctx: '%s.K7:impl::do_call<%s>::task:runs-and-resumes' % (P, ctx),
                       describe=lambda ev: 'task runs the callable and resumes the caller on every path', min_sites=1, what='exit')
    # awaiters
    pairs = [('photon::Awaiter<photon::PhotonContext>', 'photon::semaphore::signal', 'photon::semaphore::wait'),
             ('photon::Awaiter<photon::AutoContext>', None, None)]
    f_res = prog.find('photon::Awaiter<photon::PhotonContext>::resume')
    f_sus = prog.find('photon::Awaiter<photon::PhotonContext>::suspend')
    for f, callee, fld in ((f_res, 'photon::semaphore::signal', 'sem'), (f_sus, 'photon::semaphore::wait', 'sem')):
        hit = [e for e in f.exprs if e['k'] == 'call' and strip_targs(e.get('fn') or '') == callee and (f.path(e['recv']) or '').endswith(fld)]
        key = '%s.K10:%s:uses-%s' % (P, f.nname, callee.split('::')[-1])
        (R.held if hit else R.violated)(P + '.K10', key, f.id, '%s:%d' % (f.file, f.line), '%s %s on the awaiter semaphore' % (f.nname, 'calls ' + callee if hit else 'does not call ' + callee))
    for nm in ('resume', 'suspend'):
        f = prog.find('photon::Awaiter<photon::AutoContext>::' + nm)
        conds = [e for e in f.exprs if e['k'] == 'cond']
        ok = False
        for c in conds:
            if f.path(c['c']) == 'this->is_photon' and (f.path(f.x(f.skip(c['t'])).get('recv', -1)) or '').endswith('pctx') and \
               (f.path(f.x(f.skip(c['f'])).get('recv', -1)) or '').endswith('sctx') and \
               strip_targs(f.x(f.skip(c['t'])).get('fn') or '').endswith('::' + nm) and strip_targs(f.x(f.skip(c['f'])).get('fn') or '').endswith('::' + nm):
                ok = True
        key = '%s.K10:Awaiter<AutoContext>::%s:same-discriminator' % (P, nm)
        (R.held if ok else R.violated)(P + '.K10', key, f.id, '%s:%d' % (f.file, f.line),
                                        'is_photon ? pctx.%s : sctx.%s' % (nm, nm) if ok else 'resume/suspend do not select the same context by is_photon')


def awaiter_paths(R, prog):
    """K7: Awaiter<PhotonContext>::suspend() returns only through its semaphore wait, and resume() ends with the signal: the
    semaphore's own hand-shake (the signaller does not touch it after the waiter may return) is what makes it safe for the caller to
    destroy the on-stack awaiter right after suspend().  A flag-based short-cut lets the caller leave while signal() is still inside."""
    f = prog.find('photon::Awaiter<photon::PhotonContext>::suspend')
    G = K.build_f(R, prog, f)
    w = lambda ev: ev.kind == 'call' and (ev.callee() or '').startswith('photon::semaphore::wait') and (ev.recv_path() or '').endswith('sem')
    res = an.run(G, [an.SeenTracker([('waited', w)])])
    K.check_at(R, P + '.K7', G, res, lambda ev: ev.kind == 'exit', require=lambda st, ev: 'S:waited' in st,
               key_fn=lambda ev: P + '.K7:Awaiter<PhotonContext>::suspend:every-path-waits-on-the-semaphore',
               describe=lambda ev: 'suspend() has no path that returns without sem.wait()', min_sites=1, what='exit')
    f = prog.find('photon::Awaiter<photon::PhotonContext>::resume')
    G = K.build_f(R, prog, f)
    sg = lambda ev: ev.kind == 'call' and ev.callee() == 'photon::semaphore::signal' and (ev.recv_path() or '').endswith('sem')
    other = lambda ev: (ev.kind == 'binop' and ev.e['op'].endswith('=') and ev.e['op'] not in ('==', '!=', '<=', '>=') and (ev.path(ev.e['l']) or '').startswith('this->')) or \
        ((K.atomic_op(ev) or (None, None))[1] in ('store', 'exchange', 'fetch_add', 'fetch_sub', 'operator=') and (K.atomic_op(ev)[0] or '').startswith('this->'))
    res = an.run(G, [an.SeenTracker([('published', other)])])
    K.check_at(R, P + '.K8', G, res, sg, require=lambda st, ev: 'S:published' not in st,
               key_fn=lambda ev: P + '.K8:Awaiter<PhotonContext>::resume:signal-is-the-only-publication',
               describe=lambda ev: 'resume() publishes completion only through sem.signal() (no member is written before it that the waiter could act on)', min_sites=1, what='sem.signal')


def dispatcher(R, prog):
    G = K.build(R, prog, IMPL + '::delegate_helper')
    f = G.root
    arg = f.decls[f.j['params'][0]]['name']
    copies = K.local_names_init_by(f, lambda e, i: ('*' + arg) in f.show(i) or (e['k'] == 'construct' and arg in f.show(i)))
    R.require(copies, 'C08: delegate_helper no longer copies its TaskLB argument')
    run_copy = lambda ev: ev.kind == 'call' and ev.e.get('op') == '()' and any((ev.recv_path() or '') == c + '.task' for c in copies)
    run_any = lambda ev: ev.kind == 'call' and ev.e.get('op') == '()' and (ev.recv_path() or '').endswith('task')
    dec = lambda ev: ev.kind == 'binop' and ev.e['op'] == '=' and 'count' in (ev.path(ev.e['l']) or ev.show(ev.e['l'])) and '- 1' in ev.show(ev.e['r'])
    res = an.run(G, [an.SeenTracker([('ran', run_any), ('dec', dec)])])
    K.check_at(R, P + '.K8', G, res, run_any, require=lambda st, ev: run_copy(ev) and 'S:ran' not in st,
               key_fn=lambda ev: P + '.K8:impl::delegate_helper:runs-own-copy-once',
               describe=lambda ev: 'the task is invoked through the helper\'s own copy of the record (the dispatcher reuses its slot), once', min_sites=1, what='task()')
    K.check_at(R, P + '.K8', G, res, dec, require=lambda st, ev: 'S:ran' in st and 'S:dec' not in st and any(('*' + c + '.count') in ev.show(ev.e['l']) or (c + '.count') in ev.show(ev.e['l']) for c in copies),
               key_fn=lambda ev: P + '.K8:impl::delegate_helper:decrement-after-task',
               describe=lambda ev: 'running-task counter decremented after the task, through the copied pointer, once', min_sites=1, what='count decrement')
    K.check_at(R, P + '.K7', G, res, lambda ev: ev.kind == 'exit', require=lambda st, ev: 'S:ran' in st and 'S:dec' in st,
               key_fn=lambda ev: P + '.K7:impl::delegate_helper:runs-and-decrements', describe=lambda ev: 'every path runs the task and decrements the counter', min_sites=1)
    # main_loop
    G = K.build(R, prog, IMPL + '::main_loop')
    f = G.root
    created = lambda ev: ev.kind == 'call' and (ev.callee() or '').split('::')[-1] == 'thread_create' and 'delegate_helper' in ev.show()
    direct = lambda ev: ev.kind == 'call' and ev.callee() == IMPL + '::delegate_helper'
    yielded = lambda ev: ev.kind == 'call' and ev.callee() == 'photon::thread_yield_to'
    recv = lambda ev: ev.kind == 'call' and (ev.callee() or '').endswith('::recv') and 'ring' in (ev.recv_path() or '')
    cnts = [d['name'] for d in f.decls if d['kind'] == 'local' and re.match(r'^volatile (uint64_t|unsigned long)$', d.get('type') or '')]
    R.require(len(cnts) == 1, 'C08: main_loop no longer has exactly one volatile running-task counter (found %s)' % cnts)
    CNT = cnts[0]
    tasks = K.local_names_init_by(f, lambda e, i: e['k'] == 'call' and strip_targs(e.get('fn') or '').endswith('::recv'))
    R.require(len(tasks) >= 1, 'C08: main_loop no longer stores the result of ring->recv in a local')
    inc = lambda ev: (ev.kind == 'binop' and ev.e['op'] == '=' and (ev.path(ev.e['l']) or '') == CNT and '+ 1' in ev.show(ev.e['r'])) or \
        (ev.kind == 'binop' and ev.e['op'] == '+=' and (ev.path(ev.e['l']) or '') == CNT and ev.f.const(ev.e['r']) == 1) or \
        (ev.kind == 'unop' and ev.e['op'] == '++' and (ev.path(ev.e['sub']) or '') == CNT)
    seen = an.SeenTracker([('created', created), ('yielded', yielded, ('created',)), ('inc', inc), ('recv', recv, ('inc',)),
                           ('reg', lambda ev: ev.kind == 'call' and ev.callee() == IMPL + '::add_vcpu')])
    res = an.run(G, [seen, an.GuardTracker(lambda k: True)])
    K.check_at(R, P + '.K7', G, res, lambda ev: recv(ev) or ev.kind == 'exit' or (ev.kind == 'call' and ev.callee() == 'photon::thread_yield'),
               require=lambda st, ev: 'S:created' not in st,
               key_fn=lambda ev: P + '.K7:impl::main_loop:yield-to-new-thread-before-reusing-record',
               describe=lambda ev: 'after creating the task thread the dispatcher yields to it before the next recv / exit (the on-stack record is copied first)',
               min_sites=2, what='recv/exit')
    K.check_at(R, P + '.K8', G, res, yielded, require=lambda st, ev: 'S:created' in st and ev.arg_path(0) in K.local_names_init_by(f, lambda e, i: 'thread_create' in f.show(i)),
               key_fn=lambda ev: P + '.K8:impl::main_loop:yield-targets-created-thread', describe=lambda ev: 'thread_yield_to targets the thread just created', min_sites=1)
    K.check_at(R, P + '.K8', G, res, lambda ev: created(ev) or direct(ev), require=lambda st, ev: 'S:inc' in st,
               key_fn=lambda ev: P + '.K8:impl::main_loop:count-before-start',
               describe=lambda ev: 'running_tasks incremented before the task is started (all three modes)', min_sites=3, what='task start')
    K.check_at(R, P + '.K6', G, res, lambda ev: ev.kind == 'exit',
               require=lambda st, ev: ('G:%s=F' % CNT) in st and any(('G:%s=F' % t) in st or ('G:%s.operator bool()=F' % t) in st for t in tasks),
               key_fn=lambda ev: P + '.K6:impl::main_loop:leave-only-on-stop-marker-after-drain',
               describe=lambda ev: 'the loop is left only on an empty (stop) task and the function returns only after running_tasks drained to 0', min_sites=1, what='exit')
    K.check_at(R, P + '.K8', G, res, lambda ev: ev.kind == 'call' and ev.callee() == IMPL + '::remove_vcpu',
               require=lambda st, ev: ('G:%s=F' % CNT) in st,
               key_fn=lambda ev: P + '.K8:impl::main_loop:deregister-only-after-drain',
               describe=lambda ev: 'the vCPU leaves the registry (which ~impl waits on) only after its running tasks drained', min_sites=1, what='remove_vcpu')
    K.check_at(R, P + '.K8', G, res, recv, require=lambda st, ev: 'S:reg' in st,
               key_fn=lambda ev: P + '.K8:impl::main_loop:registered-before-serving', describe=lambda ev: 'vCPU registered before serving tasks', min_sites=1)
    # destructor
    G = K.build(R, prog, IMPL + '::~impl')
    seen = an.SeenTracker([('markers', lambda ev: ev.kind == 'call' and ev.callee() == IMPL + '::enqueue'),
                           ('joined', lambda ev: ev.kind == 'call' and ev.callee() == 'std::thread::join')])
    res = an.run(G, [seen, an.GuardTracker(lambda k: True)])
    K.check_at(R, P + '.K8', G, res, lambda ev: ev.kind == 'call' and (ev.callee() or '').endswith('FlexRingChannel::destroy'),
               require=lambda st, ev: any(re.match(r'^G:__begin\d* == __end\d*=T$', x) for x in st) and any(re.match(r'^G:this->vcpus\.size\(\)=F$', x) for x in st),
               key_fn=lambda ev: P + '.K8:impl::~impl:destroy-ring-last',
               describe=lambda ev: 'the ring is destroyed only after joining the workers and after every vCPU deregistered', min_sites=1, what='destroy')
    # one marker per vCPU: the enqueue loop is driven by vcpus.size()
    f = G.root
    n_init = K.local_names_init_by(f, lambda e, i: 'vcpus.size()' in f.show(i))
    K.check_at(R, P + '.K8', G, res, lambda ev: ev.kind == 'call' and ev.callee() == 'std::thread::join',
               require=lambda st, ev: any(('G:%s=F' % n) in st for n in n_init) or 'S:markers' in st,
               key_fn=lambda ev: P + '.K8:impl::~impl:markers-before-join', describe=lambda ev: 'stop markers (one per registered vCPU) are posted before joining', min_sites=1)


def async_and_registry(R, prog):
    fs = prog.find('photon::WorkPool::__async_call_helper', all=True)
    R.require(len(fs) >= 1, 'C08: no instantiation of WorkPool::__async_call_helper')
    for f in fs[:2]:
        G = K.build_f(R, prog, f)
        called = lambda ev: ev.kind == 'call' and ev.e.get('op') == '()'
        deleted = lambda ev: ev.kind == 'delete'
        res = an.run(G, [an.SeenTracker([('called', called), ('deleted', deleted)])])
        K.check_at(R, P + '.K8', G, res, deleted, require=lambda st, ev: 'S:called' in st and 'S:deleted' not in st,
                   key_fn=lambda ev: P + '.K8:WorkPool::__async_call_helper:call-then-single-delete',
                   describe=lambda ev: 'the task object is deleted after it ran, once', min_sites=1, what='delete')
        K.check_at(R, P + '.K7', G, res, lambda ev: ev.kind == 'exit', require=lambda st, ev: 'S:called' in st and 'S:deleted' in st,
                   key_fn=lambda ev: P + '.K7:WorkPool::__async_call_helper:runs-and-deletes', describe=lambda ev: 'every path runs and deletes the task', min_sites=1)
    funcs = [f for f in prog.in_file('thread/workerpool.cpp')]
    K.k3_field_guarded(R, P + '.K3', prog, funcs, IMPL + '::vcpus', lambda base, ev: 'this->worker_lock',
                       exceptions={IMPL + '::impl': 'constructor: reserve() before any worker is started',
                                   IMPL + '::~impl': 'size() polling while the workers deregister; the final state is re-checked under join',
                                   IMPL + '::get_vcpu_num': 'diagnostic size read'}, min_sites=5)


def pause_policy(R, prog):
    """K6: the back-off used when the ring is full must match the caller: PhotonPause (photon::thread_yield / semaphore) is chosen only
    where a photon thread is known to exist - an explicit PhotonContext, or after testing photon::CURRENT.  async_call(), the default
    call() and the destructor's stop markers come through AutoContext from plain OS threads too."""
    n = 0
    for f in [g for g in prog.funcs.values() if g.nname == IMPL + '::enqueue' and g.blocks]:
        G = K.build_f(R, prog, f)
        res = an.run(G, [an.GuardTracker(lambda k: 'CURRENT' in k)])
        ptypes = [f.decls[d].get('type') or '' for d in f.j['params']]
        photon_ctx = any('PhotonContext' in t for t in ptypes)
        snd = lambda ev: ev.kind == 'call' and 'send<' in (ev.e.get('fn') or '') and 'PhotonPause' in (ev.e.get('fn') or '')
        ctxname = ([t for t in ptypes if 'Context' in t] or ['?'])[0].split('::')[-1]
        k = K.check_at(R, P + '.K6', G, res, snd,
                       require=lambda st, ev, photon_ctx=photon_ctx: photon_ctx or 'G:photon::CURRENT=T' in st,
                       key_fn=lambda ev, ctxname=ctxname: '%s.K6:impl::enqueue(%s):photon-backoff-only-for-photon-callers' % (P, ctxname),
                       describe=lambda ev: 'send<PhotonPause> is chosen only for an explicit PhotonContext or after photon::CURRENT was tested non-null', min_sites=0, what='ring->send<PhotonPause>')
        n += 1
    if n < 1:
        R.broken.append('C08.K6: WorkPool::impl::enqueue not found')


def run(R, prog, tier):
    R.guard(C.flexqueue_geometry, R, prog, P)
    R.guard(awaiter_paths, R, prog)
    R.guard(pause_policy, R, prog)
    R.guard(do_call, R, prog)
    R.guard(dispatcher, R, prog)
    R.guard(async_and_registry, R, prog)
