"""C03 — Condition variable (DESIGN.md §5 C03)."""
import re
from sa.facts import AnalysisBroken, strip_targs
from sa import analysis as an
from sa import rules as K
from rules import common as C

UNITS = ['thread/thread.cpp']
FLOOR = 18
P = 'C03'
CLAIM = ('Decides for the condition variable of thread/thread.cpp: (1) cvar_do_wait never releases or takes the user lock directly before '
         'sleeping: the only release is the callback handed to the sleep together with the queue and the lock, and the deferred-sleep '
         'primitive forwards exactly that callback to the context switch after the waiter was linked; prepare_usleep links the waiter '
         'into the wait queue and the sleep queue while holding the queue lock (when there is a queue) and its own thread lock; '
         '(2) cvar_do_wait returns after the sleep only on a path where the lock function returned 0; wait(mutex*) / wait(spinlock*) pass '
         'matching lock/unlock wrappers which really lock/unlock; ETIMEDOUT is produced only for ret==0; (3) resume_one interrupts exactly '
         'the head it locked; resume_all iterates resume_one until it returns null.')


def param_names(f):
    return [f.decls[d]['name'] for d in f.j['params']]


def fp_call_of(ev, name):
    """call through function-pointer parameter `name`"""
    if ev.kind != 'call':
        return False
    e = ev.e
    if e.get('fn') or 'calleeExpr' not in e:
        return False
    ce = ev.f.x(ev.f.skip(e['calleeExpr']))
    while ce is not None and ce['k'] == 'unop' and ce['op'] == '*':
        ce = ev.f.x(ev.f.skip(ce['sub']))
    return ce is not None and ce['k'] == 'ref' and ce['name'] == name


def cvar_do_wait(R, prog):
    G = K.build(R, prog, 'photon::cvar_do_wait')
    f = G.root
    pn = param_names(f)
    R.require(len(pn) == 5, 'C03: cvar_do_wait signature changed (expected q, m, timeout, lock, unlock)')
    q, m, timeout, lock, unlock = pn
    sleep = lambda ev: ev.kind == 'call' and (ev.callee() or '').split('::')[-1] in ('thread_usleep_defer', 'thread_usleep', 'wait', 'wait_defer') \
        and ev.arg_path(1) == q
    seen = an.SeenTracker([('sleep', sleep), ('direct_unlock', lambda ev: fp_call_of(ev, unlock)), ('direct_lock', lambda ev: fp_call_of(ev, lock))])
    lockret = K.local_names_init_by(f, lambda e, i: e['k'] == 'call' and not e.get('fn') and 'calleeExpr' in e and
                                    (f.x(f.skip(e['calleeExpr'])) or {}).get('name') == lock)
    def _is_lock_call(i):
        e = f.x(f.skip(i))
        return e is not None and e['k'] == 'call' and not e.get('fn') and 'calleeExpr' in e and (f.x(f.skip(e['calleeExpr'])) or {}).get('name') == lock
    for e in f.exprs:       # ... or assigned from it (`while ((r = lock(m)) != 0)`)
        if e['k'] == 'binop' and e['op'] == '=' and _is_lock_call(e['r']):
            l = f.x(f.skip(e['l']))
            if l is not None and l['k'] == 'ref':
                lockret.add(l['name'])
    res = an.run(G, [seen, an.GuardTracker(lambda k: True)])
    K.check_at(R, P + '.K8', G, res, sleep,
               require=lambda st, ev: 'S:direct_unlock' not in st and 'S:direct_lock' not in st,
               key_fn=lambda ev: P + '.K8:photon::cvar_do_wait:no-direct-unlock-before-sleep',
               describe=lambda ev: 'no call through lock/unlock parameters precedes the sleep (release only via the deferred callback)',
               min_sites=1, what='sleep on the wait queue')
    for nid, idx, ev in G.events():
        if sleep(ev):
            key = P + '.K11:photon::cvar_do_wait:sleep-args'
            a = [ev.arg_path(i) for i in range(4)]
            if ev.callee().endswith('thread_usleep_defer') and a[1] == q and a[2] == unlock and a[3] == m:
                R.held(P + '.K11', key, f.id, ev.loc(), 'sleep receives (queue=%s, defer=%s, arg=%s): release-and-enqueue is one step' % (q, unlock, m))
            else:
                R.violated(P + '.K11', key, f.id, ev.loc(), 'sleep %s does not hand (queue, unlock, lock) to the deferred switch' % ev.show()[:90])
    # a direct call of unlock anywhere is a release outside the atomic step
    for nid, idx, ev in G.events():
        if fp_call_of(ev, unlock):
            R.violated(P + '.K8', P + '.K8:photon::cvar_do_wait:direct-unlock', f.id, ev.loc(), 'user lock released directly: %s' % ev.show())
    # the verdict (0 = notified, ETIMEDOUT only for a sleep that ran to its deadline) is the translation of the SLEEP's own result:
    # nothing may overwrite it between the sleep and the translation (a waiter that was notified has consumed the notification)
    sleep_results = K.locals_defined_only_by(f, r'^photon::thread_usleep_defer\(.*\)$')
    K.check_at(R, P + '.K11', G, res, lambda ev: ev.kind == 'call' and ev.callee() == 'photon::waitq_translate_errno',
               require=lambda st, ev: ev.arg_path(0) in sleep_results,
               key_fn=lambda ev: P + '.K11:photon::cvar_do_wait:verdict-is-the-sleep-result',
               describe=lambda ev: 'waitq_translate_errno() receives the value returned by thread_usleep_defer, unmodified', min_sites=1, what='waitq_translate_errno')
    K.check_at(R, P + '.K6', G, res, lambda ev: (K.returned_call(ev) or (ev.kind == 'return' and ev.depth == 0 and not
                                                  (ev.f.x(ev.f.skip(ev.e['sub'])) or {}).get('k') == 'call')),
               require=lambda st, ev: 'S:sleep' not in st or any(('G:%s=F' % n) in st for n in lockret) or
               ('G:[(*%s)(%s)]=F' % (lock, m)) in st or ('G:(*%s)(%s)=F' % (lock, m)) in st,
               key_fn=lambda ev: P + '.K6:photon::cvar_do_wait:return-with-lock',
               describe=lambda ev: 'return after the sleep requires lock(m)==0 on the path', min_sites=2, what='returns')
    K.check_at(R, P + '.K7', G, res, lambda ev: ev.kind == 'exit',
               require=lambda st, ev: True, key_fn=lambda ev: P + '.K7:photon::cvar_do_wait:exit', describe=lambda ev: 'exit reachable', min_sites=1)


def wrappers(R, prog):
    pairs = {'photon::mutex': ('photon::mutex_lock', 'photon::mutex_unlock'), 'photon::spinlock': ('photon::spinlock_lock', 'photon::spinlock_unlock')}
    fs = prog.find('photon::condition_variable::wait', all=True)
    n = 0
    for f in fs:
        for e in f.exprs:
            if e['k'] == 'call' and strip_targs(e.get('fn') or '') == 'photon::cvar_do_wait':
                n += 1
                a = e['args']
                names = [strip_targs((f.x(f.skip(x)) or {}).get('fn') or '') for x in a[3:5]]
                pt = f.decls[f.j['params'][0]]['type']
                want = None
                for rec, pr in pairs.items():
                    if rec + ' *' == pt or pt.endswith(rec.split('::')[-1] + ' *'):
                        want = pr
                key = '%s.K10:photon::condition_variable::wait(%s):lock-unlock-pair' % (P, pt)
                site = f.locl(e['loc'])
                if want and tuple(names) == want and f.path(a[1]) == f.decls[f.j['params'][0]]['name']:
                    R.held(P + '.K10', key, f.id, site, 'passes matching pair %s for %s' % (names, pt))
                else:
                    R.violated(P + '.K10', key, f.id, site, 'lock/unlock wrappers %s do not match lock type %s (want %s)' % (names, pt, want))
    if n < 2:
        R.broken.append('C03.K10: expected 2 callers of cvar_do_wait in condition_variable::wait, found %d' % n)
    # the wrappers do what their names say
    W = {'photon::mutex_lock': 'photon::mutex::lock', 'photon::spinlock_lock': 'photon::spinlock::lock',
         'photon::spinlock_unlock': 'photon::spinlock::unlock', 'photon::mutex_unlock': 'photon::do_mutex_unlock'}
    for w, callee in W.items():
        f = prog.find(w)
        p0 = f.decls[f.j['params'][0]]['name']
        hits = [e for e in f.exprs if e['k'] == 'call' and strip_targs(e.get('fn') or '') == callee]
        key = '%s.K10:%s:wraps(%s)' % (P, w, callee.split('::')[-1])
        ok = False
        for e in hits:
            tgt = f.path(e['recv']) if 'recv' in e else (f.path(e['args'][0]) if e.get('args') else None)
            if tgt == p0:
                ok = True
        if ok:
            R.held(P + '.K10', key, f.id, '%s:%d' % (f.file, f.line), '%s forwards its argument to %s' % (w, callee))
        else:
            R.violated(P + '.K10', key, f.id, '%s:%d' % (f.file, f.line), '%s does not call %s on its argument' % (w, callee))
        if 'lock' in w and 'unlock' not in w:
            G = K.build_f(R, prog, f)
            res = an.run(G, [])
            K.check_at(R, P + '.K10', G, res, lambda ev: ev.kind == 'return' and ev.depth == 0,
                       require=lambda st, ev, callee=callee: (ev.f.callee(ev.f.skip(ev.e['sub'])) == callee),
                       key_fn=lambda ev, w=w: '%s.K10:%s:returns-lock-result' % (P, w),
                       describe=lambda ev: 'returns the result of the real lock call', min_sites=1)


def sleep_primitives(R, prog):
    # static thread_usleep_defer(Timeout, thread_list*, defer, arg): link first, then switch with the same callback
    f = prog.find('photon::thread_usleep_defer', sig='thread_list')
    G = K.build_f(R, prog, f)
    pn = param_names(f)
    timeout, waitq, defer, darg = pn
    seen = an.SeenTracker([('prepare', lambda ev: ev.kind == 'call' and ev.callee() == 'photon::prepare_usleep' and ev.arg_path(1) == waitq),
                           ('direct', lambda ev: fp_call_of(ev, defer))])
    res = an.run(G, [seen])
    sw = lambda ev: ev.kind == 'call' and ev.callee() == 'photon::switch_context_defer'
    K.check_at(R, P + '.K8', G, res, sw,
               require=lambda st, ev: 'S:prepare' in st and 'S:direct' not in st and ev.arg_path(2) == defer and ev.arg_path(3) == darg,
               key_fn=lambda ev: P + '.K8:photon::thread_usleep_defer(waitq):prepare-then-switch-defer',
               describe=lambda ev: 'waiter linked by prepare_usleep(waitq) before switch_context_defer(.., defer, arg); callback not run directly',
               min_sites=1, what='switch_context_defer')
    for nid, idx, ev in G.events():
        if fp_call_of(ev, defer):
            R.violated(P + '.K8', P + '.K8:photon::thread_usleep_defer(waitq):direct-defer', f.id, ev.loc(), 'deferred callback invoked before the switch')
    # prepare_usleep: linking under the locks
    G = K.build(R, prog, 'photon::prepare_usleep')
    f = G.root
    pn = param_names(f)
    waitq = pn[1]
    rq = pn[2]
    cur = '%s.current->lock' % rq
    lt = an.LockTracker()
    res = an.run(G, [lt, an.GuardTracker(lambda k: True)])
    K.check_at(R, P + '.K2', G, res,
               target=lambda ev: ev.kind == 'call' and (ev.callee() or '').endswith('::push_back') and ev.recv_path() == waitq,
               require=lambda st, ev: an.has_lock(st, cur) and (an.has_lock(st, waitq + '->lock') or an.has_cond_lock(st, waitq + '->lock')),
               key_fn=lambda ev: P + '.K2:photon::prepare_usleep:waitq-push_back',
               describe=lambda ev: 'waiter linked into the wait queue under the queue lock and its own thread lock', min_sites=1, what='waitq->push_back')
    K.check_at(R, P + '.K2', G, res,
               target=lambda ev: ev.kind == 'call' and ev.callee() == 'photon::SleepQueue::push',
               require=lambda st, ev: an.has_lock(st, cur) and (('G:%s=T' % waitq) not in st or an.has_lock(st, waitq + '->lock') or an.has_cond_lock(st, waitq + '->lock')),
               key_fn=lambda ev: P + '.K2:photon::prepare_usleep:sleepq-push',
               describe=lambda ev: 'waiter pushed to the sleep queue under its own thread lock (and the queue lock if any)', min_sites=1, what='sleepq.push')
    K.check_at(R, P + '.K2', G, res,
               target=lambda ev: ev.kind == 'call' and ev.callee() == 'photon::AtomicRunQ::remove_current',
               require=lambda st, ev: an.has_lock(st, cur),
               key_fn=lambda ev: P + '.K2:photon::prepare_usleep:remove_current',
               describe=lambda ev: 'current leaves the run queue under its thread lock', min_sites=1, what='remove_current')
    # the conditional queue locker is tied to the queue pointer
    cl = [x for sts in res.before.values() for st in sts for x in st if x.startswith('LC:')]
    key = P + '.K2:photon::prepare_usleep:conditional-queue-lock'
    if cl and all(re.search(r'\b%s\b' % re.escape(waitq), x.split('|', 1)[1]) for x in cl):
        R.held(P + '.K2', key, f.id, '%s:%d' % (f.file, f.line), 'queue lock taken iff `%s` is non-null: %s' % (waitq, sorted(set(cl))[0]))
    elif not cl and any(an.has_lock(st, waitq + '->lock') for sts in res.before.values() for st in sts):
        R.held(P + '.K2', key, f.id, '%s:%d' % (f.file, f.line), 'queue lock taken unconditionally')
    else:
        R.violated(P + '.K2', key, f.id, '%s:%d' % (f.file, f.line), 'queue lock condition %s is not the queue pointer' % cl)


def notify(R, prog):
    G = K.build(R, prog, 'photon::waitq::resume_all')
    res = an.run(G, [an.GuardTracker(lambda k: True)])
    K.check_at(R, P + '.K6', G, res, lambda ev: ev.kind == 'return' and ev.depth == 0,
               require=lambda st, ev: any(re.match(r'^G:this->resume_one\(.*\)=F$', x) for x in st),
               key_fn=lambda ev: P + '.K6:photon::waitq::resume_all:until-empty',
               describe=lambda ev: 'resume_all returns only after resume_one returned null', min_sites=1, what='return')
    G = K.build(R, prog, 'photon::waitq::resume_one')
    f = G.root
    lh = list(K.local_names_init_by(f, lambda e, i: e['k'] == 'construct' and strip_targs(e.get('fn') or '') == 'photon::ScopedLockHead::ScopedLockHead'))
    R.require(len(lh) == 1, 'C03: waitq::resume_one no longer locks the head through ScopedLockHead')
    h = lh[0]
    seen = an.SeenTracker([('wake', lambda ev: ev.kind == 'call' and ev.callee() == 'photon::prelocked_thread_interrupt')])
    res = an.run(G, [an.LockTracker(), an.GuardTracker(lambda k: True), seen])
    K.check_at(R, P + '.K2', G, res, lambda ev: ev.kind == 'call' and ev.callee() == 'photon::prelocked_thread_interrupt',
               require=lambda st, ev: ev.arg_path(0) == h and an.has_lock(st, h + '->lock') and 'S:wake' not in st,
               key_fn=lambda ev: P + '.K2:photon::waitq::resume_one:interrupt-locked-head',
               describe=lambda ev: 'exactly the locked head is interrupted, once', min_sites=1, what='prelocked_thread_interrupt')
    K.check_at(R, P + '.K7', G, res, lambda ev: ev.kind == 'return' and ev.depth == 0,
               require=lambda st, ev: ('G:%s=T' % h) not in st or 'S:wake' in st,
               key_fn=lambda ev: P + '.K7:photon::waitq::resume_one:wake-if-head',
               describe=lambda ev: 'non-null head => it is woken before returning', min_sites=1, what='return')
    # ScopedLockHead locks indirectly: take the lock, then re-validate the head pointer
    G = K.build(R, prog, 'photon::indirect_lock', sig='volatile')
    res = an.run(G, [an.LockTracker(), an.GuardTracker(lambda k: True)])
    ppt = K.param(G.root, 0)
    K.check_at(R, P + '.K6', G, res, lambda ev: ev.kind == 'return' and ev.depth == 0 and ev.f.const(ev.e['sub']) is None,
               require=lambda st, ev: an.has_lock(st, ev.show(ev.e['sub']) + '->lock') and ('G:%s == *%s=T' % (ev.show(ev.e['sub']), ppt)) in st,
               key_fn=lambda ev: P + '.K6:photon::indirect_lock:revalidate-after-lock',
               describe=lambda ev: 'head returned only locked and re-validated (x == *ppt after x->lock.lock())', min_sites=1, what='return x')


def indirect_null(R, prog):
    G = K.build(R, prog, 'photon::indirect_lock', sig='volatile')
    res = an.run(G, [an.LockTracker(), an.GuardTracker(lambda k: True)])
    ppt, end = K.param(G.root, 0), K.param(G.root, 1)
    heads = K.locals_defined_only_by(G.root, r'^\*%s$' % re.escape(ppt))       # local snapshots of the head pointer
    R.require(len(heads) >= 1, 'C03: indirect_lock no longer snapshots *%s' % ppt)
    K.check_at(R, P + '.K6', G, res, lambda ev: ev.kind == 'return' and ev.depth == 0 and ev.f.const(ev.e['sub']) == 0,
               require=lambda st, ev: any((('G:%s=F' % x) in st or ('G:%s == %s=T' % (x, end)) in st) and not an.has_lock(st, x + '->lock') for x in heads),
               key_fn=lambda ev: P + '.K6:photon::indirect_lock:null-only-if-queue-empty',
               describe=lambda ev: 'nullptr ("nobody to wake") is returned only when the head pointer read was null/end, never after a failed re-validation',
               min_sites=1, what='return nullptr')


def translate(R, prog):
    G = K.build(R, prog, 'photon::waitq_translate_errno')
    f = G.root
    ret = param_names(f)[0]
    res = an.run(G, [an.GuardTracker(lambda k: True)])

    def writes_etimedout(ev):
        return ev.kind == 'binop' and ev.e['op'] == '=' and ev.f.const(ev.e['r']) == 110
    K.check_at(R, P + '.K6', G, res, writes_etimedout,
               require=lambda st, ev: ('G:%s=F' % ret) in st,
               key_fn=lambda ev: P + '.K6:photon::waitq_translate_errno:ETIMEDOUT-only-for-0',
               describe=lambda ev: 'ETIMEDOUT only when the sleep ran to its deadline (ret == 0)', min_sites=1, what='errno = ETIMEDOUT')


def run(R, prog, tier):
    R.guard(C.wake_reason_before_publish, R, prog, P)
    R.guard(C.reason_not_overwritten, R, prog, P)    # the notification (-1) travels in error_number: an unlocked interrupt must not overwrite it (seed C03-5)
    R.guard(cvar_do_wait, R, prog)
    R.guard(wrappers, R, prog)
    R.guard(sleep_primitives, R, prog)
    R.guard(notify, R, prog)
    R.guard(indirect_null, R, prog)
    R.guard(translate, R, prog)
