"""C20 — Sub-filesystem confinement (DESIGN.md §5 C20)."""
import re
from sa.facts import AnalysisBroken, strip_targs
from sa import analysis as an
from sa import rules as K
from sa.graph import Graph

UNITS = ['fs/path.cpp', 'fs/subfs.cpp']
FLOOR = 40
P = 'C20'
CLAIM = ('Decides for fs/path.cpp and fs/subfs.cpp: (1) the depth effect of Path::level_valid() for every class of path component ("" and "." '
         '-> 0, ".." -> -1 with an immediate <0 => reject test, every other name -> +1), by abstract interpretation of the loop body over the '
         'component classes the function itself distinguishes (size, name[0], name[1]); (2) every const char* path parameter of every '
         'SubFileSystem operation (all but symlink\'s link content and the xattr name) is passed through PathCat before the forward to the '
         'underlying filesystem and the forward receives that same variable; (3) PathCat copies into its buffer only after the length test and '
         'the level test succeeded, and rejects by assigning a null path; init() copies the base path only after its length test.')
TECHNIQUE = 'static analysis: abstract interpretation of one loop body over a finite partition of its input + must-precede dataflow over clang CFGs + guarded bounded-write facts'

CLASSES = [
    ('empty ""', dict(size=0, c0=None, c1=None), 0),
    ('dot "."', dict(size=1, c0='.', c1=None), 0),
    ('dotdot ".." at depth 0', dict(size=2, c0='.', c1='.'), -1),
    ('dotdot ".." at depth 1', dict(size=2, c0='.', c1='.', start=1), 'up'),
    ('dot-name of length 2 ".x"', dict(size=2, c0='.', c1='x'), +1),
    ('dot-name of length >=3 ".xy"', dict(size=3, c0='.', c1='x'), +1),
    ('dot-dot-name of length >=3 "..x"', dict(size=3, c0='.', c1='.'), +1),
    ('ordinary name of length 1 "a"', dict(size=1, c0='a', c1=None), +1),
    ('ordinary name of length 2 "ab"', dict(size=2, c0='a', c1='b'), +1),
    ('ordinary name of length 2 ending in dot "a."', dict(size=2, c0='a', c1='.'), +1),
    ('ordinary name of length >=3 "abc"', dict(size=3, c0='a', c1='b'), +1),
]


class Unknown(Exception):
    pass


def level_valid(R, prog):
    f = prog.find('photon::fs::Path::level_valid')
    G = Graph(prog, f)
    R.graphs += 1
    R.functions.add(f.id)
    f.aliases()
    # the loop: a for-range block; its body starts at the true successor
    loops = [n for n in G.nodes.values() if any(c is not None and n.f.blocks[n.bid].get('term', {}).get('k') == 'forrange' for _, c in n.succs)]
    R.require(len(loops) == 1, 'C20: Path::level_valid() no longer iterates its components with one range-for loop')
    head = loops[0]
    body = [s for s, c in head.succs if c is not None and c[3] is True]
    R.require(len(body) == 1, 'C20: loop body not found')
    counter = [d for d, dj in enumerate(f.decls) if dj['kind'] == 'local' and dj['type'] == 'int']
    size_names = K.local_names_init_by(f, lambda e, i: e['k'] == 'call' and strip_targs(e.get('fn') or '').endswith('::size'))

    def make_eval(f, comp_names, size_names, counter):
        """numeric/boolean evaluation of expressions of function f for one component class"""
        def ev_int(x, cls, level=None):
            x = f.skip(x)
            e = f.x(x)
            if e is None:
                raise Unknown('null')
            c = f.const(x)
            if c is not None and e['k'] in ('lit', 'enumconst', 'unop', 'cast'):
                return c
            if e['k'] == 'ref':
                if e['name'] in size_names:
                    return cls['size']
                vi = f.value_init(e['decl']) if f.decls[e['decl']]['kind'] == 'local' else None
                if vi is not None and vi >= 0:
                    ie = f.x(f.skip(vi))
                    if ie is not None and ie['k'] == 'call' and strip_targs(ie.get('fn') or '').endswith('::size'):
                        return cls['size']
                    if ie is not None and ie['k'] == 'call' and ie.get('inrepo'):
                        return ev_int(vi, cls, level)
                    return 1 if truth(vi, cls, [0]) else 0
                raise Unknown('variable %s' % e['name'])
            if e['k'] == 'call' and strip_targs(e.get('fn') or '').endswith('::size'):
                return cls['size']
            if e['k'] == 'call' and strip_targs(e.get('fn') or '').endswith('::empty') and not e.get('args'):
                return 1 if cls['size'] == 0 else 0
            if e['k'] == 'call' and e.get('op') == '[]':
                i = ev_int(e['args'][0], cls)
                if i >= cls['size']:
                    raise Unknown('name[%d] read beyond a component of length %d' % (i, cls['size']))
                return ord(cls.get('c%d' % i))
            if e['k'] == 'index':
                i = ev_int(e['idx'], cls)
                if i >= cls['size']:
                    raise Unknown('name[%d] read beyond a component of length %d' % (i, cls['size']))
                return ord(cls.get('c%d' % i))
            if e['k'] == 'call' and e.get('inrepo') and len(e.get('args', [])) == 1:
                # a helper predicate over the component (e.g. is_dots(name)): interpret it for this class
                cands = prog.by_nname.get(strip_targs(e['fn']), [])
                if cands:
                    vals = interp_returns(cands[0], cls)
                    if len(vals) == 1:
                        return list(vals)[0]
                    raise Unknown('helper %s returns %s for this class' % (e['fn'], sorted(vals)))
            raise Unknown('expression %s' % f.show(x))

        def truth(x, cls, level):
            x = f.skip(x)
            e = f.x(x)
            if e['k'] == 'unop' and e['op'] == '!':
                return not truth(e['sub'], cls, level)
            if e['k'] == 'binop' and e['op'] == '&&':
                return truth(e['l'], cls, level) and truth(e['r'], cls, level)
            if e['k'] == 'binop' and e['op'] == '||':
                return truth(e['l'], cls, level) or truth(e['r'], cls, level)
            if e['k'] == 'binop' and e['op'] in ('==', '!=', '<', '>', '<=', '>='):
                def val(y):
                    ye = f.x(f.skip(y))
                    if ye['k'] == 'unop' and ye['op'] in ('--', '++') and (f.x(f.skip(ye['sub'])) or {}).get('decl') in counter:
                        return level[0]     # already applied at the inc/dec event (prefix form)
                    if ye['k'] == 'ref' and ye['decl'] in counter:
                        return level[0]
                    return ev_int(y, cls, level)
                a, b = val(e['l']), val(e['r'])
                return {'==': a == b, '!=': a != b, '<': a < b, '>': a > b, '<=': a <= b, '>=': a >= b}[e['op']]
            return ev_int(x, cls, level) != 0
        return ev_int, truth

    def interp_returns(g, cls, depth=0):
        """set of constants the helper g may return for a component of class cls"""
        if depth > 3:
            raise Unknown('helper recursion')
        g.aliases()
        GG = Graph(prog, g)
        sz = K.local_names_init_by(g, lambda e, i: e['k'] == 'call' and strip_targs(e.get('fn') or '').endswith('::size'))
        evi, tr = make_eval(g, None, sz, [])
        out = set()
        stack = [GG.entry]
        seen = set()
        while stack:
            nid = stack.pop()
            if nid in seen:
                continue
            seen.add(nid)
            node = GG.nodes[nid]
            done = False
            for ev in node.evs:
                if ev.kind == 'return':
                    out.add(evi(ev.e['sub'], cls))
                    done = True
            if done:
                continue
            for s2, c in node.succs:
                if c is None or tr(c[2], cls, [0]) == c[3]:
                    stack.append(s2)
        return out

    ev_int, truth = make_eval(f, None, size_names, counter)

    def taken(node, c, cls, lvl, ev_int=None, truth=None):
        """is the CFG edge with condition c taken for this component class and level?  (if/else, switch case, switch default)"""
        if isinstance(c[3], tuple) and c[3][0] in ('case', 'default'):
            v = _ev_int(c[2], cls, lvl)
            if c[3][0] == 'case':
                return v == c[3][1]
            others = [cc[3][1] for _, cc in node.succs if cc is not None and isinstance(cc[3], tuple) and cc[3][0] == 'case']
            return v not in others
        return _truth(c[2], cls, lvl) == c[3]
    _ev_int, _truth = ev_int, truth

    def walk_body(cls, start):
        results = set()
        stack = [(body[0], start, 0)]
        steps = 0
        while stack:
            nid, delta, depth = stack.pop()
            steps += 1
            if steps > 2000:
                raise Unknown('walk did not terminate')
            node = G.nodes[nid]
            lvl = [delta]
            rejected = False
            for ev in node.evs:
                if ev.kind == 'unop' and ev.e['op'] in ('++', '--') and (f.x(f.skip(ev.e['sub'])) or {}).get('decl') in counter:
                    lvl[0] += 1 if ev.e['op'] == '++' else -1
                elif ev.kind == 'binop' and ev.e['op'] in ('+=', '-=') and (f.x(f.skip(ev.e['l'])) or {}).get('decl') in counter:
                    lvl[0] += (1 if ev.e['op'] == '+=' else -1) * ev_int(ev.e['r'], cls)
                elif ev.kind == 'return':
                    results.add(('return', f.const(ev.e['sub']) if f.const(ev.e['sub']) is not None else (1 if truth(ev.e['sub'], cls, lvl) else 0), lvl[0]))
                    rejected = True
            if rejected:
                continue
            if nid == head.id or not node.succs:
                results.add(('next', None, lvl[0]))
                continue
            for s2, c in node.succs:
                if s2 == head.id or G.nodes[s2].bid == head.bid:
                    results.add(('next', None, lvl[0]))
                    continue
                if c is None or taken(node, c, cls, lvl):
                    stack.append((s2, lvl[0], depth + 1))
        return results

    def after_loop(level):
        """verdicts the function can return once the components are exhausted, with the counter at `level`"""
        out = set()
        stack = [s2 for s2, c in head.succs if c is not None and c[3] is False]
        seen = set()
        while stack:
            nid = stack.pop()
            if nid in seen:
                continue
            seen.add(nid)
            node = G.nodes[nid]
            done = False
            for ev in node.evs:
                if ev.kind == 'return':
                    cv = f.const(ev.e['sub'])
                    out.add(cv if cv is not None else (1 if truth(ev.e['sub'], dict(size=1, c0='a', c1=None), [level]) else 0))
                    done = True
            if done:
                continue
            for s2, c in node.succs:
                if c is None or taken(node, c, dict(size=1, c0='a', c1=None), [level]):
                    stack.append(s2)
        return out

    for cname, cls, want in CLASSES:
        key = '%s.K12:photon::fs::Path::level_valid:%s' % (P, cname)
        try:
            results = walk_body(cls, cls.get('start', 0))
            nexts = sorted(set(r[2] for r in results if r[0] == 'next'))
            rets = [r for r in results if r[0] == 'return']
            if want == -1:
                ok = nexts == [] and all(r[1] == 0 and r[2] == -1 for r in rets) and bool(rets)   # from level 0: rejected at once
                detail = 'from depth 0 a ".." rejects (return false) right after the decrement: %s' % sorted(results, key=str)
                if not ok and nexts == [-1] and not rets:
                    # deferred rejection: then EVERY continuation from depth -1 must reject - another component of any class, and the end of the path
                    cont = set()
                    for _, c2, _ in CLASSES:
                        cont |= set(walk_body(c2, -1))
                    fin = after_loop(-1)
                    ok = all(r[0] == 'return' and r[1] == 0 for r in cont) and fin == {0}
                    detail = 'a ".." from depth 0 leaves depth -1; every continuation must then reject: next component -> %s, end of path -> %s' % (
                        sorted(set((r[0], r[1]) for r in cont), key=str), sorted(fin))
            elif want == 'up':
                ok = nexts == [0] and not rets
                detail = 'from depth 1 a ".." continues at depth 0 without rejecting: %s' % sorted(results, key=str)
            else:
                ok = nexts == [want] and not rets
                detail = 'effect on depth = %s (want %+d), returns=%s' % (nexts, want, rets)
            (R.held if ok else R.violated)(P + '.K12', key, f.id, '%s:%d' % (f.file, f.line), detail)
        except Unknown as u:
            raise AnalysisBroken('C20.K12: level_valid uses a test the component abstraction does not know (%s) for class %s' % (u, cname))
    # final verdict of the function: true only after the loop
    res = an.run(G, [an.GuardTracker(lambda k: True)])
    K.check_at(R, P + '.K12', G, res, lambda ev: ev.kind == 'return' and ev.depth == 0 and ev.f.const(ev.e['sub']) != 0,
               require=lambda st, ev: any(re.match(r'^G:__begin\d* == __end\d*=T$', x) or re.match(r'^G:__begin\d* != __end\d*=F$', x) for x in st),
               key_fn=lambda ev: P + '.K12:photon::fs::Path::level_valid:accept-only-after-all-components',
               describe=lambda ev: 'true is returned only after every component was examined', min_sites=1, what='return true')


EXEMPT = {('symlink', 0): 'link content: stored verbatim in the link, not resolved by this operation',
          }


def subfs(R, prog):
    rec = 'photon::fs::SubFileSystem'
    methods = [f for f in prog.funcs.values() if (f.rec or '') == rec and f.kind == 'method' and f.j.get('virtual')]
    R.require(len(methods) >= 30, 'C20: expected >= 30 SubFileSystem operations, found %d' % len(methods))
    npar = 0
    for f in sorted(methods, key=lambda f: f.line):
        op = f.nname.split('::')[-1]
        G = K.build_f(R, prog, f)
        pnames = [(i, f.decls[d]['name'], f.decls[d]['type']) for i, d in enumerate(f.j['params'])]
        paths = []
        for i, nm, ty in pnames:
            if ty.replace(' ', '') != 'constchar*':
                continue
            if (op, i) in EXEMPT:
                R.exception(P + '.K10', '%s(%s)' % (op, nm), EXEMPT[(op, i)])
                continue
            if op.endswith('xattr') and i == 1:      # (path, name, ...): the second string of the xattr family is the attribute name
                R.exception(P + '.K10', '%s(%s)' % (op, nm), 'attribute name, not a path')
                continue
            paths.append(nm)
        if not paths:
            continue
        cat = lambda ev: ev.kind == 'construct' and (ev.callee() or '').endswith('SubFileSystem::PathCat::PathCat') and not ev.e.get('copy')
        fwd = lambda ev: ev.kind == 'call' and ev.e.get('ctype') == 'member' and re.search(r'underlay(fs|_xattrfs)$', ev.recv_path() or '')
        spec = [('cat:' + nm, (lambda ev, nm=nm: cat(ev) and ev.arg_path(1) == nm and ev.arg_path(0) == 'this')) for nm in paths]
        res = an.run(G, [an.SeenTracker(spec)])
        for nm in paths:
            npar += 1
            K.check_at(R, P + '.K10', G, res, fwd,
                       require=lambda st, ev, nm=nm: ('S:cat:' + nm) in st and nm in [ev.arg_path(i) for i in range(len(ev.e.get('args', [])))],
                       key_fn=lambda ev, op=op, nm=nm, f=f: '%s.K10:SubFileSystem::%s%s:%s-through-PathCat' % (P, op, '' if f.sig.count(',') < 2 or op != 'open' else '(mode)', nm),
                       describe=lambda ev, nm=nm: 'path parameter `%s` is concatenated (PathCat) before the forward and the forward receives it' % nm,
                       min_sites=1, what='forward to the underlying filesystem')
    if npar < 33:
        R.broken.append('C20.K10: expected >= 33 path parameters, found %d' % npar)
    # PathCat itself
    G = K.build(R, prog, 'photon::fs::SubFileSystem::PathCat::PathCat')
    PSUB, PPATH = K.param(G.root, 0), K.param(G.root, 1)          # (subfs, path)
    res = an.run(G, [an.GuardTracker(lambda k: True), an.SeenTracker([('nulled', lambda ev: ev.kind == 'binop' and ev.e['op'] == '=' and ev.path(ev.e['l']) == PPATH and ev.f.const(ev.e['r']) == 0)])])
    cp = lambda ev: ev.kind == 'call' and ev.callee() in ('memcpy', 'strcpy', 'strncpy', 'memmove') and 'buf' in (ev.arg_show(0) or '')
    K.check_at(R, P + '.K6', G, res, cp,
               require=lambda st, ev: any(re.match(r'^G:\w+ < \d+=T$', x) for x in st) and (('G:photon::fs::path_level_valid(%s)=T' % PPATH) in st or any(re.match(r'^G:.*level_valid\(%s\)=T$' % re.escape(PPATH), x) for x in st)),
               key_fn=lambda ev: P + '.K6:SubFileSystem::PathCat:copy-after-length-and-level-tests',
               describe=lambda ev: 'bytes are copied into the path buffer only after the total-length bound and the level test succeeded', min_sites=2, what='memcpy into buf')
    K.check_at(R, P + '.K6', G, res, lambda ev: ev.kind == 'return' and ev.depth == 0,
               require=lambda st, ev: 'S:nulled' in st or ('G:%s->base_path_len=F' % PSUB) in st,
               key_fn=lambda ev: P + '.K6:SubFileSystem::PathCat:reject-nulls-path',
               describe=lambda ev: 'an early return either has no base path or has nulled the caller\'s path (rejection)', min_sites=3, what='early return')
    K.check_at(R, P + '.K7', G, res, lambda ev: ev.kind == 'exit',
               require=lambda st, ev: True, key_fn=lambda ev: P + '.K7:SubFileSystem::PathCat:exit', describe=lambda ev: 'exit', min_sites=1)
    asg = lambda ev: ev.kind == 'binop' and ev.e['op'] == '=' and ev.path(ev.e['l']) == PPATH and 'buf' in ev.show(ev.e['r'])
    res2 = an.run(G, [an.SeenTracker([('copied', cp)])])
    K.check_at(R, P + '.K8', G, res2, asg, require=lambda st, ev: 'S:copied' in st,
               key_fn=lambda ev: P + '.K8:SubFileSystem::PathCat:path-rebound-to-buffer', describe=lambda ev: 'the caller\'s path is re-pointed at the concatenated buffer after the copy', min_sites=1)
    G = K.build(R, prog, 'photon::fs::SubFileSystem::init')
    res = an.run(G, [an.GuardTracker(lambda k: True)])
    K.check_at(R, P + '.K6', G, res, lambda ev: ev.kind == 'call' and ev.callee() in ('memcpy', 'strcpy') and 'base_path' in (ev.arg_show(0) or ''),
               require=lambda st, ev: any(re.match(r'^G:this->base_path_len <= .+=T$', x) or re.match(r'^G:this->base_path_len < .+=T$', x) for x in st),
               key_fn=lambda ev: P + '.K6:SubFileSystem::init:copy-after-length-test', describe=lambda ev: 'base path copied only after its length test', min_sites=1)


def run(R, prog, tier):
    R.guard(level_valid, R, prog)
    R.guard(subfs, R, prog)
