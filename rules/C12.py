"""C12 — RPC serialization (DESIGN.md §5 C12)."""
import re
from sa.facts import AnalysisBroken, strip_targs
from sa import analysis as an
from sa import rules as K
from rules import common as C

UNITS = ['witness/serialize.cpp']
FLOOR = 25
P = 'C12'
CLAIM = ('Decides for rpc/serialize.h (witness messages with every field type, plain and checked): (1) every pointer a deserialized message '
         'exposes is produced by the bounds-checked contiguous extract of exactly the wire-declared size (buffer::_ptr is written only by '
         'the constructors, assign and DeserializerIOV::process_field), a failed extract poisons the result, iovec arrays are assigned only '
         'when the full declared size was extracted, and a slice is anchored only after run-time bounds tests of the wire-supplied '
         'offset/length against the base buffer; (2) no field is processed unless the body was extracted and validate_checksum succeeded, '
         'the result is null whenever anything failed, a checked message validates only on equality and the checksum is added after all '
         'fields; (3) writer and reader traverse the fields in the same two passes (aligned, then non-aligned) with the body last / '
         'extract_back first.')
NS = 'photon::rpc::'


def bounded_string_ops(R, prog):
    """K9: a deserialized rpc::string is a (pointer, length) pair taken from the wire; nothing guarantees a terminating NUL inside the
    received bytes.  Its operations therefore go through the length-bounded view sv(); the NUL-scanning C string functions are not
    called on it (they would read past the field, possibly past the input)."""
    UNBOUNDED = {'strcmp', 'strcoll', 'strlen', 'strcpy', 'strcat', 'strchr', 'strrchr', 'strstr', 'strdup', 'strcasecmp', 'atoi', 'atol', 'strtol', 'strtoul'}
    fs = [f for f in prog.funcs.values() if (f.rec or '') == NS + 'string' and f.file.endswith('rpc/serialize.h') and f.kind == 'method' and f.blocks]
    ops = [f for f in fs if re.search(r'::operator(<|>|==|!=|<=|>=)$', f.nname)]
    R.require(len(ops) >= 3, 'C12: comparison operators of rpc::string not found (%d)' % len(ops))
    for f in sorted(fs, key=lambda f: f.line):
        bad = [e for e in f.exprs if e['k'] == 'call' and strip_targs(e.get('fn') or '').split('::')[-1] in UNBOUNDED]
        key = '%s.K9:rpc::string::%s:length-bounded-operations-only' % (P, f.nname.split('::')[-1])
        if bad:
            R.violated(P + '.K9', key, f.id, f.locl(bad[0]['loc']), '%s scans for a NUL that a wire-supplied string need not contain' % strip_targs(bad[0]['fn']))
        elif f in ops:
            R.held(P + '.K9', key, f.id, '%s:%d' % (f.file, f.line), 'compares through the length-bounded view', nontrivial=False)


def run(R, prog, tier):
    R.guard(bounded_string_ops, R, prog)
    R.guard(pointers, R, prog)
    R.guard(gates, R, prog)
    R.guard(symmetry, R, prog)
    R.guard(C.gather_extract, R, prog, P)      # the bounded extract the deserializer's pointers come from


def pointers(R, prog):
    rpcf = [f for f in prog.funcs.values() if f.file.endswith('rpc/serialize.h')]
    K.k9_who_writes(R, P + '.K9', prog, NS + 'buffer::_ptr',
                    allowed={NS + 'buffer::buffer', NS + 'buffer::assign', NS + 'DeserializerIOV::process_field'}, min_sites=2, funcs=rpcf)
    K.k9_who_writes(R, P + '.K9', prog, NS + 'buffer::_len', allowed={NS + 'buffer::buffer', NS + 'buffer::assign'}, min_sites=1, funcs=rpcf)
    f = prog.find(NS + 'DeserializerIOV::process_field', sig='photon::rpc::buffer &')
    G = K.build_f(R, prog, f)
    x = f.decls[f.j['params'][0]]['name']
    wr = lambda ev: (K.written_member(ev) or ('',))[0] == NS + 'buffer::_ptr'
    failed = lambda ev: (K.written_member(ev) or ('',))[0] == NS + 'DeserializerIOV::failed' and ev.f.const(ev.e['r']) == 1
    res = an.run(G, [an.GuardTracker(lambda k: True), an.SeenTracker([('failed', failed), ('set', wr)])])
    for nid, idx, ev in G.events():
        if wr(ev):
            rhs = ev.show(ev.e['r'])
            key = P + '.K11:DeserializerIOV::process_field(buffer&):pointer-from-bounded-extract'
            ok = re.match(r'^this->_iov->extract_front_continuous\(%s\.size\(\)\)$' % re.escape(x), rhs) is not None
            (R.held if ok else R.violated)(P + '.K11', key, f.id, ev.loc(), 'buffer pointer := %s' % rhs)
    K.check_at(R, P + '.K7', G, res, lambda ev: ev.kind == 'exit',
               require=lambda st, ev: 'S:failed' in st or ('G:%s._ptr=T' % x) in st or ('G:%s.size()=F' % x) in st or ('G:%s.size() == 0=T' % x) in st,
               key_fn=lambda ev: P + '.K7:DeserializerIOV::process_field(buffer&):failed-extract-poisons',
               describe=lambda ev: 'every exit has a non-null pointer, an empty field, or has set `failed`', min_sites=1, what='exit')
    f = prog.find(NS + 'DeserializerIOV::process_field', sig='iovec_array &')
    G = K.build_f(R, prog, f)
    x = f.decls[f.j['params'][0]]['name']
    res = an.run(G, [an.GuardTracker(lambda k: True), an.SeenTracker([('failed', failed)])])
    rets = K.locals_assigned_from_call(f, r'::extract_front$')          # the number of bytes the extract really delivered
    R.require(len(rets) >= 1, 'C12: process_field(iovec_array&) no longer keeps the result of extract_front')
    K.check_at(R, P + '.K6', G, res, lambda ev: ev.kind == 'call' and (ev.callee() or '').endswith('iovec_array::assign'),
               require=lambda st, ev: any(('G:%s == %s.summed_size=T' % (r, x)) in st for r in rets),
               key_fn=lambda ev: P + '.K6:DeserializerIOV::process_field(iovec_array&):assign-only-full-extract',
               describe=lambda ev: 'the iovec array is exposed only if exactly summed_size bytes were extracted', min_sites=1, what='assign')
    K.check_at(R, P + '.K7', G, res, lambda ev: ev.kind == 'exit',
               require=lambda st, ev: 'S:failed' in st or any(('G:%s == %s.summed_size=T' % (r, x)) in st for r in rets),
               key_fn=lambda ev: P + '.K7:DeserializerIOV::process_field(iovec_array&):short-extract-poisons', describe=lambda ev: 'a short extract sets `failed`', min_sites=1)
    # slice::anchor
    f = prog.find(NS + 'slice::anchor')
    G = K.build_f(R, prog, f)
    base = f.decls[f.j['params'][0]]['name']
    res = an.run(G, [an.GuardTracker(lambda k: True)])

    def raw(ev):
        # a return that builds a string from base.addr() + offset
        return ev.kind == 'return' and ev.depth == 0 and 'addr()' in ev.show(ev.e['sub']) and 'offset' in ev.show(ev.e['sub'])

    sizes = K.locals_defined_only_by(f, r'^%s\.size\(\)$' % re.escape(base)) | {base + '.size()'}

    def bounded(st):
        # each wire quantity is compared on its own; a sum of wire quantities (offset + length) can wrap and bounds nothing
        OFF, LEN = 'this->offset', 'this->length'
        lo = ('G:%s < 0=F' % OFF) in st
        for S in sizes:
            a = ('G:%s <= %s=T' % (OFF, S)) in st and ('G:%s <= (%s - %s)=T' % (LEN, S, OFF)) in st
            b = ('G:%s <= %s=T' % (LEN, S)) in st and ('G:%s <= (%s - %s)=T' % (OFF, S, LEN)) in st
            if lo and (a or b):
                return True
        return False
    K.check_at(R, P + '.K6', G, res, raw, require=lambda st, ev: bounded(st),
               key_fn=lambda ev: P + '.K6:slice::anchor:wire-offset-bounded-at-run-time',
               describe=lambda ev: 'base.addr()+offset is formed only after run-time tests 0 <= offset <= size and length <= size - offset, each wire value compared on its own: a test of offset+length can wrap (an assert is not a test under -DNDEBUG)',
               min_sites=1, what='pointer formation')


def gates(R, prog):
    fs = prog.find(NS + 'DeserializerIOV::deserialize', all=True)
    R.require(len(fs) >= 2, 'C12: expected deserialize<Plain>/deserialize<Checked>/deserialize<Inner> instantiations')
    for f in fs:
        G = K.build_f(R, prog, f)
        T = re.search(r'deserialize<(.*)>$', f.name).group(1)
        pf = lambda ev: ev.kind == 'call' and (ev.callee() or '').endswith('::process_fields')
        failed = lambda ev: (K.written_member(ev) or ('',))[0] == NS + 'DeserializerIOV::failed' and ev.f.const(ev.e['r']) == 1
        xb = lambda ev: ev.kind == 'call' and 'extract_back' in (ev.callee() or '')
        res = an.run(G, [an.GuardTracker(lambda k: True), an.SeenTracker([('body', xb), ('fields', pf), ('failed', failed)])])
        bodies = K.locals_assigned_from_call(f, r'::extract_back$')         # the message body taken from the back of the input
        R.require(len(bodies) >= 1, 'C12: deserialize<> no longer keeps the result of extract_back<T>()')
        K.check_at(R, P + '.K6', G, res, pf,
                   require=lambda st, ev, bodies=bodies: 'S:body' in st and (ev.recv_path() or '') in bodies and ('G:%s=T' % ev.recv_path()) in st and
                   any(k.startswith('G:%s->validate_checksum(' % ev.recv_path()) and k.endswith('=T') for k in st),
                   key_fn=lambda ev, T=T: '%s.K6:DeserializerIOV::deserialize<%s>:fields-only-after-body-and-checksum' % (P, T),
                   describe=lambda ev: 'fields are processed only after the body was extracted (non-null) and validate_checksum() returned true', min_sites=2, what='process_fields')
        K.check_at(R, P + '.K7', G, res, lambda ev: ev.kind == 'return' and ev.depth == 0,
                   require=lambda st, ev: 'S:fields' in st or 'S:failed' in st,
                   key_fn=lambda ev, T=T: '%s.K7:DeserializerIOV::deserialize<%s>:reject-sets-failed' % (P, T),
                   describe=lambda ev: 'a rejected body/checksum sets `failed`', min_sites=1, what='return')
        def null_when_failed(st, ev, f=f, bodies=bodies):
            se = f.x(f.skip(ev.e['sub']))
            if se is None:
                return False
            if f.const(ev.e['sub']) == 0:
                return True                                   # nullptr is always a safe answer
            if se['k'] == 'cond' and f.path(se['c']) == 'this->failed' and f.const(se['t']) == 0 and f.path(se['f']) in bodies:
                return True                                   # failed ? nullptr : t
            return f.path(ev.e['sub']) in bodies and 'G:this->failed=F' in st      # plain `t`, only where failed is known false
        K.check_at(R, P + '.K6', G, res, lambda ev: ev.kind == 'return' and ev.depth == 0, null_when_failed,
                   key_fn=lambda ev, T=T: '%s.K6:DeserializerIOV::deserialize<%s>:null-when-failed' % (P, T),
                   describe=lambda ev: 'the message pointer is returned only when `failed` is false (returns %s)' % ev.show(ev.e['sub']), min_sites=1, what='return')
    # checksum
    fs = [f for f in prog.funcs.values() if f.nname == NS + 'CheckedMessage::validate_checksum']
    R.require(len(fs) >= 1, 'C12: CheckedMessage::validate_checksum not instantiated')
    for f in fs[:1]:
        G = K.build_f(R, prog, f)
        res = an.run(G, [an.GuardTracker(lambda k: True), an.SeenTracker([('hashed', lambda ev: ev.kind == 'call' and (ev.callee() or '').endswith('::extend_hash'))])])
        K.check_at(R, P + '.K6', G, res, lambda ev: ev.kind == 'return' and ev.depth == 0 and ev.f.const(ev.e['sub']) == 1,
                   require=lambda st, ev: 'S:hashed' in st and any(re.match(r'^G:dst == this->m_checksum=T$', k) or re.match(r'^G:\w+ == this->m_checksum=T$', k) for k in st),
                   key_fn=lambda ev: P + '.K6:CheckedMessage::validate_checksum:true-only-on-equality',
                   describe=lambda ev: 'true only if the recomputed checksum equals the received one', min_sites=1, what='return true')


def symmetry(R, prog):
    def passes(f):
        out = []
        G = K.build_f_plain(prog, f)
        for nid, idx, ev in G.events():
            pass
        for e in sorted([e for e in f.exprs if e['k'] == 'call' and strip_targs(e.get('fn') or '') == NS + 'FilterAlignedFields'], key=lambda e: (e['loc'][1], e['loc'][2])):
            out.append(f.const(e['args'][1]))
        return out
    sers = prog.find(NS + 'SerializerIOV::serialize', all=True)
    dess = prog.find(NS + 'DeserializerIOV::deserialize', all=True)
    R.require(sers and dess, 'C12: serialize/deserialize instantiations not found')
    for f in sers + dess:
        ps = passes(f)
        key = '%s.K10:%s:aligned-then-non-aligned' % (P, f.name.replace(NS, ''))
        (R.held if ps == [1, 0] else R.violated)(P + '.K10', key, f.id, '%s:%d' % (f.file, f.line), 'field passes in order %s (want aligned=true, then false)' % ps)
    for f in sers:
        G = K.build_f(R, prog, f)
        pf = lambda ev: ev.kind == 'call' and (ev.callee() or '').endswith('::process_fields')
        body = lambda ev: ev.kind == 'call' and (ev.callee() or '').endswith('SerializerIOV::process_field') and 'msg' in ev.show()
        chk = lambda ev: ev.kind == 'call' and (ev.callee() or '').endswith('::add_checksum')
        res = an.run(G, [an.SeenTracker([('fields', pf), ('body', body), ('late_fields', lambda ev: pf(ev), ())])])
        T = re.search(r'serialize<(.*)>$', f.name).group(1)
        res2 = an.run(G, [an.SeenTracker([('body', body)])])
        K.check_at(R, P + '.K8', G, res2, pf, require=lambda st, ev: 'S:body' not in st,
                   key_fn=lambda ev, T=T: '%s.K8:SerializerIOV::serialize<%s>:body-last' % (P, T), describe=lambda ev: 'field passes precede the body', min_sites=2)
        K.check_at(R, P + '.K8', G, res, chk, require=lambda st, ev: 'S:fields' in st and 'S:body' in st,
                   key_fn=lambda ev, T=T: '%s.K8:SerializerIOV::serialize<%s>:checksum-over-everything' % (P, T),
                   describe=lambda ev: 'the checksum is added after all fields and the body were appended', min_sites=1)
    for f in dess:
        G = K.build_f(R, prog, f)
        pf = lambda ev: ev.kind == 'call' and (ev.callee() or '').endswith('::process_fields')
        xb = lambda ev: ev.kind == 'call' and 'extract_back' in (ev.callee() or '')
        res = an.run(G, [an.SeenTracker([('body', xb)])])
        T = re.search(r'deserialize<(.*)>$', f.name).group(1)
        K.check_at(R, P + '.K8', G, res, pf, require=lambda st, ev: 'S:body' in st,
                   key_fn=lambda ev, T=T: '%s.K8:DeserializerIOV::deserialize<%s>:body-first' % (P, T), describe=lambda ev: 'extract_back of the body precedes the field passes', min_sites=2)
