"""C10 — Socket streams over the event engine (DESIGN.md §5 C10)."""
import re
from sa.facts import AnalysisBroken, strip_targs
from sa import analysis as an
from sa import rules as K

UNITS = ['io/epoll.cpp', 'io/epoll-ng.cpp', 'net/kernel_socket.cpp', 'net/basic_socket.cpp']
FLOOR = 60
P = 'C10'
CLAIM = ('Decides for io/epoll.cpp, io/epoll-ng.cpp, net/kernel_socket.cpp, net/basic_socket.cpp: (1) an interest registered for the current '
         'thread is removed on every failing exit of wait_for_fd (both engines), success is reported only for an EOK wake-up and ETIMEDOUT only '
         'when the sleep ran out; (2) the level engine fires a direction only if the kernel reported it AND it is still registered, hands '
         'out that direction\'s own waiter, disarms only fired directions of one-shot entries, and records a waiter only after epoll_ctl '
         'succeeded; (3) the sleep in wait_for_fd lies inside the pause-work-stealing scope; (4) read/readv/write/writev go through the '
         'resume-after-partial loop with one Timeout constructed before the loop, recv/send call the primitive once with the stream timeout; '
         'close() drops the fd from the engine before closing it; (5) doio_once / etdoio share the skeleton EINTR->retry, EAGAIN->wait, failed '
         'wait->return, and every net:: primitive pairs a read-side syscall with wait_for_fd_readable and a write-side one with '
         'wait_for_fd_writable on the same fd and timeout; doio_loop stops on error/EOF and accumulates otherwise.')
EVBIT = {'error_data': 4, 'reader_data': 1, 'writer_data': 2}


def wait_for_fd(R, prog):
    for cls, file in (('photon::EventEngineEPoll', 'io/epoll.cpp'), ('photon::EventEngineEPollNG', 'io/epoll-ng.cpp')):
        f = prog.find(cls + '::wait_for_fd', file=file)
        G = K.build_f(R, prog, f)
        short = cls.split('::')[-1]
        add = lambda ev, cls=cls: ev.kind == 'call' and ev.callee() == cls + '::add_interest'
        rm = lambda ev, cls=cls: ev.kind == 'call' and ev.callee() == cls + '::rm_interest'
        sleep = lambda ev: ev.kind == 'call' and ev.callee() == 'photon::thread_usleep'
        pause = lambda ev: ev.kind == 'call' and ev.callee() == 'photon::thread_pause_work_stealing' and ev.f.const(ev.e['args'][0]) == 1
        unpause = lambda ev: ev.kind == 'call' and ev.callee() == 'photon::thread_pause_work_stealing' and ev.f.const(ev.e['args'][0]) == 0
        seen = an.SeenTracker([('added', add), ('removed', rm, ()), ('slept', sleep), ('paused', pause), ('unpaused', unpause, ('paused',))])
        res = an.run(G, [seen, an.GuardTracker(lambda k: True)])
        # `ret` = the local that holds the results of add_interest and of the sleep; `err` = the ERRNO snapshot
        CN = K.canon({'ret': K.one(K.locals_assigned_from_call(f, r'::add_interest$') & K.locals_assigned_from_call(f, r'^photon::thread_usleep$'), 'result local', f),
                      'err': K.local_of_type(f, r'(^|::)ERRNO$')})
        K.check_at(R, P + '.K7', G, res, lambda ev: ev.kind == 'return' and ev.depth == 0 and ev.f.const(ev.e['sub']) == -1,
                   require=lambda st, ev: 'S:slept' not in st or 'S:removed' in st,
                   key_fn=lambda ev, short=short: '%s.K7:%s::wait_for_fd:failing-exit-removes-interest' % (P, short),
                   describe=lambda ev: 'after the sleep, -1 is returned only after rm_interest (no stale thread pointer stays armed)', min_sites=2, what='return -1')
        if short == 'EventEngineEPollNG':
            # its epoll data pointer is an Event on THIS stack frame, and events are reaped one round before they are delivered:
            # after deregistering, the already-reaped events are fired before the frame is left
            drain = lambda ev: ev.kind == 'call' and (ev.callee() or '').endswith('::wait_and_fire_events')
            res_d = an.run(G, [an.SeenTracker([('slept', sleep), ('removed', rm, ('drained',)), ('drained', drain)])])
            K.check_at(R, P + '.K7', G, res_d, lambda ev: ev.kind == 'return' and ev.depth == 0 and ev.f.const(ev.e['sub']) == -1,
                       require=lambda st, ev: 'S:slept' not in st or ('S:removed' in st and 'S:drained' in st),
                       key_fn=lambda ev, short=short: '%s.K7:%s::wait_for_fd:failing-exit-drains-reaped-events' % (P, short),
                       describe=lambda ev: 'after rm_interest the events already reaped (which point at the on-stack waiter) are fired before returning', min_sites=2, what='return -1')
        K.check_at(R, P + '.K6', G, res, lambda ev: ev.kind == 'return' and ev.depth == 0 and ev.f.const(ev.e['sub']) == 0 and True,
                   require=lambda st, ev: 'S:slept' not in st or ('G:ret == -1=T' in CN(st) and any(re.match(r'^G:err\.no == \d+=T$', k) or re.match(r'^G:err\.no=F$', k) for k in CN(st))),
                   key_fn=lambda ev, short=short: '%s.K6:%s::wait_for_fd:success-only-for-EOK-wakeup' % (P, short),
                   describe=lambda ev: '0 is returned after sleeping only if the sleep was interrupted with EOK (event arrived)', min_sites=1, what='return 0')
        K.check_at(R, P + '.K6', G, res, lambda ev: ev.kind == 'binop' and ev.e['op'] == '=' and ev.path(ev.e['l']) == 'errno' and ev.f.const(ev.e['r']) == 110,
                   require=lambda st, ev: 'G:ret=F' in CN(st),
                   key_fn=lambda ev, short=short: '%s.K6:%s::wait_for_fd:ETIMEDOUT-only-if-slept-through' % (P, short),
                   describe=lambda ev: 'errno = ETIMEDOUT only when thread_usleep returned 0', min_sites=0, what='errno = ETIMEDOUT')
        K.check_at(R, P + '.K8', G, res, sleep, require=lambda st, ev: 'S:added' in st and 'S:paused' in st,
                   key_fn=lambda ev, short=short: '%s.K8:%s::wait_for_fd:sleep-inside-pause-work-stealing' % (P, short),
                   describe=lambda ev: 'the thread sleeps registered and with work stealing paused (a vCPU-local engine holds its pointer)', min_sites=1, what='thread_usleep')
        K.check_at(R, P + '.K4', G, res, lambda ev: ev.kind == 'exit', require=lambda st, ev: 'S:paused' not in st,
                   key_fn=lambda ev, short=short: '%s.K4:%s::wait_for_fd:pause-restored' % (P, short), describe=lambda ev: 'work-stealing pause undone on every exit', min_sites=1)
        K.check_at(R, P + '.K6', G, res, sleep, require=lambda st, ev: 'G:ret < 0=F' in CN(st),
                   key_fn=lambda ev, short=short: '%s.K6:%s::wait_for_fd:sleep-only-if-registered' % (P, short), describe=lambda ev: 'sleeps only after add_interest succeeded', min_sites=1)


def level_engine(R, prog):
    E = 'photon::EventEngineEPoll'
    fs = prog.find(E + '::wait_for_events', all=True)
    fs = [f for f in fs if 'DataCB' in f.name or '<' in f.name]
    R.require(len(fs) >= 2, 'C10: expected 2 instantiations of EventEngineEPoll::wait_for_events<DataCB,FDCB>')
    for n, f in enumerate(fs):
        G = K.build_f(R, prog, f)
        cb = f.decls[f.j['params'][1]]['name']
        res = an.run(G, [an.GuardTracker(lambda k: True)])

        def fired_ok(st, ev):
            a = ev.arg_show(0) or ''
            m = re.match(r'^(.+)\.(error_data|reader_data|writer_data)$', a)
            if not m:
                return False
            ent, fld = m.group(1), m.group(2)
            bit = EVBIT[fld]
            reg = any(k == 'G:(%s.interests & %d)=T' % (ent, bit) for k in st)
            # the kernel bits that must wake this direction: its own readiness bit, and - for readers and writers alike - an error
            # (EPOLLERR = 8) or a hang-up (EPOLLHUP = 16): a peer that shuts down while our send queue is full reports EPOLLHUP only
            need = {'reader_data': 1 | 8 | 16, 'writer_data': 4 | 8 | 16, 'error_data': 8}[fld]
            ker = any(re.match(r'^G:\(.+\.events & (\d+)\)=T$', k) and (int(re.match(r'^G:\(.+\.events & (\d+)\)=T$', k).group(1)) & need) == need for k in st)
            return reg and ker
        K.check_at(R, P + '.K6', G, res, lambda ev, cb=cb: ev.kind == 'call' and ev.e.get('op') == '()' and ev.recv_path() == cb, fired_ok,
                   key_fn=lambda ev, n=n: '%s.K6:EventEngineEPoll::wait_for_events#%d:fire-%s-only-if-reported-and-registered' % (P, n, (ev.arg_show(0) or '?').split('.')[-1]),
                   describe=lambda ev: 'waiter %s is fired only if it is still registered and the kernel reported its direction, tested with a mask that also covers EPOLLERR/EPOLLHUP (a hang-up wakes readers and writers)' % ev.arg_show(0), min_sites=3, what='datacb')
        K.check_at(R, P + '.K6', G, res, lambda ev: ev.kind == 'call' and ev.callee() == E + '::rm_interest',
                   require=lambda st, ev, f=f: any(re.match(r'^G:\(.+\.interests & 32768\)=T$', k) for k in st) and
                   any(('G:%s=T' % n) in st and re.search(r'(?<![\w.>])%s(?!\w)' % re.escape(n), ev.arg_show(0) or '') for n in K.locals_defined_only_by(f, r'^(0|<compound>)$')),
                   key_fn=lambda ev, n=n: '%s.K6:EventEngineEPoll::wait_for_events#%d:disarm-only-fired-oneshot' % (P, n),
                   describe=lambda ev: 'rm_interest(events) only for a one-shot entry and only the fired directions', min_sites=1, what='rm_interest')
        K.check_at(R, P + '.K6', G, res, lambda ev: ev.kind == 'call' and ev.e.get('op') == '[]' and (ev.recv_path() or '').endswith('_inflight_events'),
                   require=lambda st, ev: any(re.match(r'^G:.* < this->_inflight_events\.size\(\)=T$', k) for k in st),
                   key_fn=lambda ev, n=n: '%s.K6:EventEngineEPoll::wait_for_events#%d:entry-index-bounded' % (P, n),
                   describe=lambda ev: 'the fd reported by the kernel indexes the table only if it is inside it', min_sites=1, what='_inflight_events[fd]')
    G = K.build(R, prog, E + '::add_interest')
    res = an.run(G, [an.GuardTracker(lambda k: True)])
    pe = K.param(G.root, 0)
    rets = K.locals_assigned_from_call(G.root, r'::ctl$')
    rec = lambda ev: ev.kind == 'binop' and ev.e['op'] in ('=', '|=') and re.search(r'_inflight_events\[.*\]\.(reader_data|writer_data|error_data|interests)$', ev.path(ev.e['l']) or '')
    K.check_at(R, P + '.K6', G, res, rec,
               require=lambda st, ev: any(('G:%s=F' % r) in st for r in rets) or any(re.match(r'^G:this->ctl\(.*\) < 0=F$', k) for k in st),
               key_fn=lambda ev: P + '.K6:EventEngineEPoll::add_interest:record-only-after-ctl-succeeded',
               describe=lambda ev: 'the table records a waiter (%s) only after epoll_ctl succeeded' % (ev.path(ev.e['l']) or '').split('.')[-1], min_sites=4, what='entry update')
    K.check_at(R, P + '.K6', G, res, lambda ev: ev.kind == 'call' and ev.e.get('op') == '[]' and (ev.recv_path() or '').endswith('_inflight_events'),
               require=lambda st, ev: ('G:%s.fd < 0=F' % pe) in st,
               key_fn=lambda ev: P + '.K6:EventEngineEPoll::add_interest:fd-validated', describe=lambda ev: 'fd validated before indexing the table', min_sites=1)
    G = K.build(R, prog, E + '::rm_interest')
    res = an.run(G, [an.GuardTracker(lambda k: True)])
    pe = K.param(G.root, 0)
    inter = K.locals_defined_only_by(G.root, r'^\(%s\.interests & \w+\)$' % re.escape(pe))    # the directions asked for AND registered
    R.require(len(inter) >= 1, 'C10: rm_interest no longer computes the intersection of requested and registered interests')
    K.check_at(R, P + '.K6', G, res, lambda ev: ev.kind == 'call' and ev.e.get('op') == '[]' and (ev.recv_path() or '').endswith('_inflight_events'),
               require=lambda st, ev: ('G:%s.fd < this->_inflight_events.size()=T' % pe) in st and ('G:%s.fd < 0=F' % pe) in st,
               key_fn=lambda ev: P + '.K6:EventEngineEPoll::rm_interest:fd-bounded', describe=lambda ev: 'fd bounded before indexing the table', min_sites=1)
    clr = lambda ev: ev.kind == 'binop' and ev.e['op'] == '=' and re.search(r'_inflight_events\[.*\]\.(reader_data|writer_data|error_data)$', ev.path(ev.e['l']) or '') and ev.f.const(ev.e['r']) == 0
    # the kernel registration follows the table: the table drops directions without an epoll_ctl only when NO direction remains
    ctl = lambda ev: ev.kind == 'call' and (ev.callee() or '').endswith('::ctl')
    upd = lambda ev: ev.kind == 'binop' and ev.e['op'] in ('^=', '&=', '=') and re.search(r'_inflight_events\[.*\]\.interests$', ev.path(ev.e['l']) or '')
    res2 = an.run(G, [an.GuardTracker(lambda k: True), an.SeenTracker([('ctl', ctl)])])

    def rearmed(st, ev):
        if 'S:ctl' in st:
            return True
        for k in st:
            m = re.match(r'^G:(\w+) == 32768=T$', k)             # nothing but the ONE_SHOT flag remains
            if m and m.group(1) in remains:
                return True
            m = re.match(r'^G:\((\w+) & (\d+)\)=F$', k)          # or: no direction bit remains
            if m and m.group(1) in remains and int(m.group(2)) & 7 == 7:
                return True
        return False
    remains = K.locals_defined_only_by(G.root, r'^\(\w+ \^ (%s)\)$' % '|'.join(re.escape(x) for x in sorted(inter)))
    R.require(len(remains) >= 1, 'C10: rm_interest no longer computes the remaining interests')
    K.check_at(R, P + '.K6', G, res2, upd, rearmed,
               key_fn=lambda ev: P + '.K6:EventEngineEPoll::rm_interest:kernel-registration-follows-table',
               describe=lambda ev: 'registered directions are dropped from the table without epoll_ctl (re-arming the one-shot fd for the remaining waiter) only if no direction remains',
               min_sites=1, what='entry.interests update')

    def clr_ok(st, ev):
        fld = (ev.path(ev.e['l']) or '').split('.')[-1]
        return any(('G:(%s & %d)=T' % (n, EVBIT[fld])) in st for n in inter)
    K.check_at(R, P + '.K6', G, res, clr, clr_ok,
               key_fn=lambda ev: '%s.K6:EventEngineEPoll::rm_interest:clear-only-removed-direction(%s)' % (P, (ev.path(ev.e['l']) or '').split('.')[-1]),
               describe=lambda ev: 'a waiter slot is cleared only for a direction that is being removed', min_sites=3, what='slot clear')


def streams(R, prog):
    S = 'photon::net::KernelSocketStream'
    for nm, prim, step in (('read', 'do_recv', 'BufStep'), ('readv', 'do_recvmsg', 'BufStepV'), ('write', 'do_send', 'BufStep'), ('writev', 'do_sendmsg', 'BufStepV')):
        f = prog.find(S + '::' + nm)
        loops = [e for e in f.exprs if e['k'] == 'call' and strip_targs(e.get('fn') or '') == 'photon::net::doio_loop']
        tmos = K.local_names_init_by(f, lambda e, i: e['k'] == 'construct' and strip_targs(e.get('fn') or '') == 'photon::Timeout::Timeout' and 'm_timeout' in f.show(i))
        lams = prog.lambdas_of(f)
        ok = len(loops) == 1 and len(tmos) == 1 and len(lams) >= 1
        det = []
        if ok:
            stepe = f.x(f.skip(loops[0]['args'][1]))
            ok = stepe is not None and step + '::' + step in (stepe.get('fn') or '').replace('photon::net::', '')
            det.append('step=%s' % (stepe or {}).get('fn'))
            calls = [(l, e) for l in lams for e in l.exprs if e['k'] == 'call' and strip_targs(e.get('fn') or '') == S + '::' + prim]
            ok = ok and len(calls) == 1 and calls[0][0].path(calls[0][1]['args'][-1]) in tmos and calls[0][0].path(calls[0][1]['args'][0]) in ('this->fd',)
            # no Timeout constructed inside the closure
            ok = ok and not any(e['k'] == 'construct' and strip_targs(e.get('fn') or '') == 'photon::Timeout::Timeout' and not e.get('copy') for l in lams for e in l.exprs)
        key = '%s.K10:KernelSocketStream::%s:loop-with-one-deadline' % (P, nm)
        (R.held if ok else R.violated)(P + '.K10', key, f.id, '%s:%d' % (f.file, f.line),
                                        '%s = doio_loop(%s(fd, .., timeout), %s) with the Timeout built once before the loop' % (nm, prim, step) if ok else
                                        '%s is not the resume-after-partial loop over %s with a single deadline (%s)' % (nm, prim, det))
    for f in prog.find(S + '::recv', all=True) + prog.find(S + '::send', all=True):
        prims = [e for e in f.exprs if e['k'] == 'call' and strip_targs(e.get('fn') or '').startswith(S + '::do_')]
        loop = [e for e in f.exprs if e['k'] == 'call' and 'doio_loop' in (e.get('fn') or '')]
        ok = len(prims) == 1 and not loop and 'this->m_timeout' in f.show(prims[0]['args'][-1]) and f.path(prims[0]['args'][0]) == 'this->fd'
        key = '%s.K10:KernelSocketStream::%s%s:single-shot' % (P, f.nname.split('::')[-1], '(iov)' if 'iovec' in f.sig else '')
        (R.held if ok else R.violated)(P + '.K10', key, f.id, '%s:%d' % (f.file, f.line), 'calls the primitive once with the stream timeout' if ok else 'not a single primitive call with m_timeout')
    G = K.build(R, prog, S + '::close')
    res = an.run(G, [an.SeenTracker([('dropped', lambda ev: ev.kind == 'call' and (ev.callee() or '').endswith('::wait_for_fd') and ev.f.const(ev.e['args'][1]) == 0 and ev.arg_path(0) == 'this->fd')])])
    K.check_at(R, P + '.K8', G, res, lambda ev: ev.kind == 'call' and ev.callee() == 'close',
               require=lambda st, ev: 'S:dropped' in st,
               key_fn=lambda ev: P + '.K8:KernelSocketStream::close:drop-from-engine-before-close', describe=lambda ev: 'the engine forgets the fd before it is closed (and may be reused)', min_sites=1)


def skeletons(R, prog):
    fs = prog.find('photon::net::doio_once', all=True) + prog.find('photon::net::etdoio', all=True)
    R.require(len(fs) >= 6, 'C10: expected instantiations of doio_once and etdoio, found %d' % len(fs))
    n_once = n_et = 0
    for f in fs:
        et = f.nname.endswith('etdoio')
        n_et += et
        n_once += not et
        if (n_et if et else n_once) > 3:
            continue     # the template body is identical across instantiations: three of each are analysed
        G = K.build_f(R, prog, f)
        io, wt = f.decls[f.j['params'][0]]['name'], f.decls[f.j['params'][1]]['name']
        iocall = lambda ev, io=io: ev.kind == 'call' and ev.e.get('op') == '()' and ev.recv_path() == io
        wtcall = lambda ev, wt=wt: ev.kind == 'call' and ev.e.get('op') == '()' and ev.recv_path() == wt
        res = an.run(G, [an.GuardTracker(lambda k: True), an.SeenTracker([('waited', wtcall), ('io', iocall, ('waited',))])])
        lab = '%s#%d' % ('etdoio' if et else 'doio_once', n_et if et else n_once)
        # `ret` = the local holding the result of the I/O callback, `e` = the snapshot of errno
        rname = K.one(K.local_names_init_by(f, lambda x, i, f=f, io=io: x['k'] == 'call' and x.get('op') == '()' and f.path(x.get('recv')) == io) or
                      K.locals_defined_only_by(f, r'^%s\(\)$' % re.escape(io)), 'I/O result local', f)
        CN = K.canon({'ret': rname, 'e': K.one(K.locals_defined_only_by(f, r'^(\*__errno_location\(\)|errno)$'), 'errno snapshot', f)})
        K.check_at(R, P + '.K10', G, res, wtcall,
                   require=lambda st, ev, CN=CN: 'G:ret < 0=T' in CN(st) and any((k.startswith('G:(') and 'e == 11)' in k and '||' in k and k.endswith('=T')) or k == 'G:e == 11=T' for k in CN(st)) and 'G:e == 4=F' in CN(st),
                   key_fn=lambda ev, lab=lab: '%s.K10:%s:wait-only-on-EAGAIN' % (P, lab),
                   describe=lambda ev: 'the wait callback runs only for a failed call with EAGAIN/EWOULDBLOCK (not EINTR)', min_sites=1, what='waitcb()')
        K.check_at(R, P + '.K10', G, res, lambda ev: ev.kind == 'return' and ev.depth == 0,
                   require=lambda st, ev, CN=CN, rname=rname: ev.path(ev.e['sub']) == rname and not ('G:e == 4=T' in CN(st) and 'G:ret < 0=T' in CN(st)),
                   key_fn=lambda ev, lab=lab: '%s.K10:%s:returns-the-io-result-never-on-EINTR' % (P, lab),
                   describe=lambda ev: 'returns the result of the I/O call; EINTR never returns', min_sites=2, what='return ret')
        K.check_at(R, P + '.K10', G, res, iocall,
                   require=lambda st, ev, wt=wt: ('G:%s()=T' % wt) not in st and ('S:waited' not in st or ('G:%s()=F' % wt) in st),
                   key_fn=lambda ev, lab=lab: '%s.K10:%s:failed-wait-does-not-retry' % (P, lab),
                   describe=lambda ev: 'after a failed wait (timeout/interrupt) the I/O is not retried', min_sites=1, what='iocb()')
    for n, f in enumerate(prog.find('photon::net::doio_loop', all=True)[:3]):
        G = K.build_f(R, prog, f)
        res = an.run(G, [an.GuardTracker(lambda k: True)])
        io = K.param(f, 0)
        rname = K.one(K.locals_defined_only_by(f, r'^%s\(\)$' % re.escape(io)), 'I/O result local', f)
        acc = K.one([ev.path(ev.e['l']) for _, _, ev in G.events() if ev.kind == 'binop' and ev.e['op'] == '+=' and ev.path(ev.e['r']) == rname], 'accumulator', f)
        CN = K.canon({'ret': rname, 'n': acc})
        K.check_at(R, P + '.K10', G, res, lambda ev: ev.kind == 'return' and ev.depth == 0,
                   require=lambda st, ev, CN=CN, rname=rname, acc=acc: (ev.path(ev.e['sub']) == rname and 'G:ret < 0=T' in CN(st)) or (ev.path(ev.e['sub']) == acc and 'G:ret < 0=T' not in CN(st)),
                   key_fn=lambda ev, n=n: '%s.K10:doio_loop#%d:error-returns-error-else-total' % (P, n),
                   describe=lambda ev: 'an error is returned as is; otherwise the accumulated count', min_sites=2, what='returns')
        K.check_at(R, P + '.K10', G, res, lambda ev, acc=acc: ev.kind == 'binop' and ev.e['op'] == '+=' and ev.path(ev.e['l']) == acc,
                   require=lambda st, ev, CN=CN, rname=rname: 'G:ret < 0=F' in CN(st) and 'G:ret=T' in CN(st) and ev.path(ev.e['r']) == rname,
                   key_fn=lambda ev, n=n: '%s.K10:doio_loop#%d:accumulate-positive-only' % (P, n), describe=lambda ev: 'only positive transfer counts are accumulated', min_sites=1)
    # read-side syscalls wait for readable, write-side for writable, on the same fd with the caller's timeout
    RD = {'read', 'readv', 'recv', 'recvmsg', 'accept4', 'accept'}
    WR = {'write', 'writev', 'send', 'sendmsg', 'sendfile'}
    n = 0
    for f in prog.in_file('net/basic_socket.cpp'):
        for e in f.exprs:
            if e['k'] == 'call' and strip_targs(e.get('fn') or '') == 'photon::net::doio_once':
                lio = prog.funcs.get((f.x(f.skip(e['args'][0])) or {}).get('fnid'))
                lwt = prog.funcs.get((f.x(f.skip(e['args'][1])) or {}).get('fnid'))
                if not lio or not lwt:
                    continue
                n += 1
                sysc = [c for c in lio.exprs if c['k'] == 'call' and strip_targs(c.get('fn') or '').split('::')[-1] in RD | WR]
                waits = [c for c in lwt.exprs if c['k'] == 'call' and strip_targs(c.get('fn') or '') in ('photon::wait_for_fd_readable', 'photon::wait_for_fd_writable')]
                key = '%s.K10:net::%s:syscall-wait-direction' % (P, f.nname.split('::')[-1])
                site = f.locl(e['loc'])
                if len(sysc) == 1 and len(waits) == 1:
                    s = strip_targs(sysc[0]['fn']).split('::')[-1]
                    w = strip_targs(waits[0]['fn']).split('_')[-1]
                    sfd = lio.path(sysc[0]['args'][0])
                    wfd = lwt.path(waits[0]['args'][0])
                    tmo = lwt.path(waits[0]['args'][1])
                    ok = ((s in RD and w == 'readable') or (s in WR and w == 'writable')) and sfd == wfd and tmo in [f.decls[d]['name'] for d in f.j['params'] if 'Timeout' in (f.decls[d].get('type') or '')]
                    (R.held if ok else R.violated)(P + '.K10', key, f.id, site, '%s(%s) pairs with wait_for_fd_%s(%s, %s)' % (s, sfd, w, wfd, tmo))
                elif not sysc and not waits:
                    R.exception(P + '.K10', f.nname, 'not a byte-stream primitive (error-queue polling); outside the pairing rule')
                else:
                    R.violated(P + '.K10', key, f.id, site, 'cannot pair one syscall with one wait (%d, %d)' % (len(sysc), len(waits)))
    if n < 8:
        R.broken.append('C10.K10: expected >= 8 DOIO_ONCE primitives in basic_socket.cpp, found %d' % n)


def run(R, prog, tier):
    R.guard(wait_for_fd, R, prog)
    R.guard(level_engine, R, prog)
    R.guard(streams, R, prog)
    R.guard(skeletons, R, prog)
