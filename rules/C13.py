"""C13 — HTTP/1.1 framing (bounded-write clause only, DESIGN.md §5 C13)."""
import re
from sa.facts import AnalysisBroken, strip_targs
from sa import analysis as an
from sa import rules as K

UNITS = ['net/http/message.cpp', 'net/http/headers.cpp', 'net/http/body.cpp']
FLOOR = 18
P = 'C13'
CLAIM = ('Decides for net/http/{message,headers,body}.cpp: (1) the bounded-write clause - every raw write into the caller-supplied '
         'message buffer or the chunk line buffer is dominated by a capacity test over the same quantities (receive, append, header '
         'insert/append/index growth, the header terminator, the request line of plain and proxied requests, the status line, the '
         'chunk-line receive whose length is capacity minus fill); the header is parsed only after its terminator was found and only '
         'once; (2) two structural pre-conditions of the framing clauses - the search for the literal header terminator starts at the '
         'buffer start or at least len(terminator)-1 bytes before the newly received bytes (a terminator straddling two recv() results '
         'is found), and the chunk-line reader reports progress (0) after recv() only if bytes arrived, end-of-stream being an error '
         '(its caller loops on 0: no endless loop on a truncated chunked body). Framing exactness, fragmentation independence beyond '
         'header detection, termination in general and over-reads inside the buffer are NOT decided.')
M = 'photon::net::http::'
RAW = ('memcpy', 'memmove', 'photon::net::http::buf_append', 'strcpy')


def expand(f, i, depth=0):
    """show() with single-assignment locals replaced by their initialisers (what a bound is really computed from)"""
    s = f.show(i)
    if depth > 3:
        return s
    for e in [f.x(j) for j in f.subtree(i)]:
        if e is not None and e['k'] == 'ref' and f.decls[e['decl']]['kind'] == 'local':
            vi = f.value_init(e['decl'])
            if vi is not None and vi >= 0:
                s = re.sub(r'(?<![\w>\.])%s(?!\w)' % re.escape(e['name']), '(' + expand(f, vi, depth + 1) + ')', s)
    return s


def message(R, prog):
    G = K.build(R, prog, M + 'Message::receive_bytes')
    res = an.run(G, [an.GuardTracker(lambda k: True)])
    K.check_at(R, P + '.K6', G, res, lambda ev: ev.kind == 'call' and (ev.callee() or '').endswith('::recv'),
               require=lambda st, ev: 'm_buf_size' in (ev.arg_show(0) or '') and ev.f.const(ev.e['args'][1]) is not None and
               any(re.match(r'^G:\(this->m_buf_capacity - this->m_buf_size\) <= (\d+)=F$', k) and int(re.match(r'^G:.* <= (\d+)=F$', k).group(1)) >= ev.f.const(ev.e['args'][1]) for k in st),
               key_fn=lambda ev: P + '.K6:Message::receive_bytes:recv-within-remaining-capacity',
               describe=lambda ev: 'recv(m_buf + m_buf_size, N) only if capacity - size > N + reserve', min_sites=1, what='recv')
    G = K.build(R, prog, M + 'Message::append_bytes')
    grow = lambda ev: ev.kind == 'binop' and ev.e['op'] == '+=' and (ev.path(ev.e['l']) or '') == 'this->m_buf_size'
    parse = lambda ev: ev.kind == 'call' and (ev.callee() or '').endswith('::parse_start_line')
    res = an.run(G, [an.GuardTracker(lambda k: True)])
    CN = K.canon({'size': K.param(G.root, 0), 'pos': (sorted(K.locals_assigned_from_call(G.root, r'::find$')) or [None])[0]})
    K.check_at(R, P + '.K6', G, res, grow,
               require=lambda st, ev: 'G:(this->m_buf_size + size) < this->m_buf_capacity=T' in CN(st) and CN.s(ev.show(ev.e['r'])) == 'size',
               key_fn=lambda ev: P + '.K6:Message::append_bytes:size-within-capacity', describe=lambda ev: 'm_buf_size grows only if size + n < capacity', min_sites=1)
    K.check_at(R, P + '.K6', G, res, parse,
               require=lambda st, ev: any(re.match(r'^G:(pos|\[.*find\(.*\)\]) == .*npos=F$', k) for k in CN(st)) and any(re.match(r'^G:this->message_status == \d+=F$', k) for k in st),
               key_fn=lambda ev: P + '.K6:Message::append_bytes:parse-once-after-terminator',
               describe=lambda ev: 'the header is parsed only after CRLFCRLF was found and only if not already parsed', min_sites=1)
    # the search for the header terminator must look back far enough to find one that straddles two recv() results
    f = G.root
    key = P + '.K11:Message::append_bytes:terminator-lookback-covers-a-straddling-terminator'
    finds = [e for e in f.exprs if e['k'] == 'call' and strip_targs(e.get('fn') or '').endswith('::find') and e.get('args') and (f.x(f.skip(e['args'][0])) or {}).get('t') == 'str']
    if len(finds) != 1:
        R.broken.append('C13.K11: append_bytes no longer searches one literal terminator (found %d find calls)' % len(finds))
    else:
        term = f.x(f.skip(finds[0]['args'][0]))['s']
        hay = f.path(finds[0]['recv'])                                  # the string_view searched
        hv = [f.value_init(d) for d, dj in enumerate(f.decls) if dj['name'] == hay and dj['kind'] == 'local']
        start = f.path(f.x(f.skip(hv[0]))['args'][0]) if hv and hv[0] is not None and hv[0] >= 0 and (f.x(f.skip(hv[0])) or {}).get('k') == 'construct' else None
        incomes = K.locals_defined_only_by(f, r'^\(this->m_buf \+ this->m_buf_size\)$')      # where the new bytes begin
        defs = []
        for e in f.exprs:
            if e['k'] == 'declstmt':
                defs += [f.show(v['init']) for v in e['vars'] if f.decls[v['decl']]['name'] == start and v.get('init') is not None and v['init'] >= 0]
            elif e['k'] == 'binop' and e['op'] == '=' and f.path(e['l']) == start:
                defs.append(f.show(e['r']))
        bad = []
        for d in defs:
            m = re.match(r'^\((\w+) - (\d+)\)$', d)
            if d == 'this->m_buf' or (m and m.group(1) in incomes and int(m.group(2)) >= len(term) - 1):
                continue
            bad.append(d)
        ok = start is not None and defs and not bad
        (R.held if ok else R.violated)(P + '.K11', key, f.id, f.locl(finds[0]['loc']),
                                        'search window for %r starts at %s := %s; every start must be the buffer start or >= %d bytes before the new bytes' % (term, start, defs, len(term) - 1))
    G = K.build(R, prog, M + 'Message::send_header')
    res = an.run(G, [an.GuardTracker(lambda k: True)])
    K.check_at(R, P + '.K6', G, res, lambda ev: ev.kind == 'call' and ev.callee() == 'memcpy',
               require=lambda st, ev: any(re.match(r'^G:this->headers\.space_remain\(\) < 2=F$', k) for k in st) and ev.f.const(ev.e['args'][2]) == 2,
               key_fn=lambda ev: P + '.K6:Message::send_header:terminator-within-space', describe=lambda ev: 'the 2-byte terminator is written only if space_remain() >= 2', min_sites=1)
    # request line: the capacity bound covers everything make_request_line appends
    fm = prog.find(M + 'Request::make_request_line')
    sources = []
    for e in fm.exprs:
        if e['k'] == 'call' and strip_targs(e.get('fn') or '') == M + 'buf_append':
            a = fm.x(fm.skip(e['args'][1]))
            sh = fm.show(e['args'][1])
            if a is not None and not (a['k'] == 'lit' or (a['k'] == 'construct' and 'lit' in [(fm.x(fm.skip(x)) or {}).get('k') for x in a.get('args', [])])):
                sources.append(sh)
    CM = K.canon({'v': K.param(fm, 0)})
    sources = [CM.s(x) for x in sources]
    var_sources = sorted(set(re.sub(r'^.*?(verbstr\[v\]|host_port\(\)|target\(\)).*$', r'\1', s) for s in sources if re.search(r'verbstr\[v\]|host_port\(\)|target\(\)', s)))
    G = K.build(R, prog, M + 'Request::reset', sig='Verb')
    f = G.root
    res = an.run(G, [an.GuardTracker(lambda k: True)])
    CR = K.canon({'v': K.param(f, 0)})

    def covers(st, ev):
        for k in st:
            m = re.match(r'^G:this->m_buf_capacity <= (.+)=F$', k)
            if not m:
                continue
            # expand the bound through single-assignment locals
            bound = m.group(1)
            for d, dj in enumerate(f.decls):
                vi = f.value_init(d) if dj['kind'] == 'local' else None
                if vi is not None and vi >= 0 and re.search(r'(?<![\w>\.])%s(?!\w)' % re.escape(dj['name']), bound):
                    bound = bound.replace(dj['name'], expand(f, vi))
            bound = CR.s(bound)
            need = {'verbstr[v]': 'verbstr[v]' in bound, 'target()': 'target()' in bound,
                    'host_port()': ('host_port()' in bound or 'full_url_size' in bound)}
            if all(need[s] for s in var_sources):
                return True
        return False
    K.check_at(R, P + '.K6', G, res, lambda ev: ev.kind == 'call' and ev.callee() == M + 'Request::make_request_line', covers,
               key_fn=lambda ev: P + '.K6:Request::reset:capacity-covers-request-line',
               describe=lambda ev: 'the capacity test before make_request_line() accounts for every variable-size piece it appends %s' % var_sources, min_sites=1, what='make_request_line')
    if len(var_sources) < 3:
        R.broken.append('C13.K6: make_request_line no longer appends verb/host/target through buf_append (found %s)' % var_sources)
    G = K.build(R, prog, M + 'Response::set_result')
    res = an.run(G, [an.GuardTracker(lambda k: True)])
    reason = K.param(G.root, 1)                # (code, reason)
    K.check_at(R, P + '.K6', G, res, lambda ev: ev.kind == 'call' and ev.callee() == M + 'buf_append' and (ev.arg_path(1) or ev.arg_show(1)) == reason,
               require=lambda st, ev: any(re.match(r'^G:this->m_buf_capacity <= \(?%s\.size\(\) \+ \d+\)?=F$' % re.escape(reason), k) for k in st),
               key_fn=lambda ev: P + '.K6:Response::set_result:status-line-within-capacity',
               describe=lambda ev: 'the reason phrase is appended only after a capacity test that includes its size', min_sites=1, what='buf_append(reason)')
    G = K.build(R, prog, M + 'Message::prepare_body_read_stream')
    res = an.run(G, [an.GuardTracker(lambda k: True)])
    K.check_at(R, P + '.K6', G, res, lambda ev: ev.kind == 'call' and (ev.callee() or '').endswith('new_chunked_body_read_stream'),
               require=lambda st, ev: any(re.match(r'^G:this->headers\.space_remain\(\) < \d+=F$', k) for k in st),
               key_fn=lambda ev: P + '.K6:Message::prepare_body_read_stream:line-buffer-space-reserved',
               describe=lambda ev: 'the chunk reader borrows the line buffer from the message buffer only if LINE_BUFFER_SIZE bytes remain', min_sites=1)


def headers(R, prog):
    H = M + 'HeadersBase::'
    for fn, nraw in (('insert', 4), ('value_append', 2)):
        G = K.build(R, prog, H + fn)
        res = an.run(G, [an.GuardTracker(lambda k: True)])
        f = G.root
        # new_size = the local that is finally stored into m_buf_size (the text size after the append)
        news = set(f.decls[(f.x(f.skip(e['r'])) or {}).get('decl', -1)]['name'] for e in f.exprs if e['k'] == 'binop' and e['op'] == '=' and
                   (f.path(e['l']) or '') == 'this->m_buf_size' and (f.x(f.skip(e['r'])) or {}).get('k') == 'ref')
        CN = K.canon(dict({'new_size': K.one(news, 'new text size local', f), 'value': K.param(f, 1 if fn == 'insert' else 0)}, **({'key': K.param(f, 0)} if fn == 'insert' else {})))
        K.check_at(R, P + '.K6', G, res, lambda ev: ev.kind == 'call' and ev.callee() == M + 'buf_append',
                   require=lambda st, ev, CN=CN: any(re.match(r'^G:\(new_size \+ .*sizeof.*\) <= this->m_buf_capacity=T$', k) or re.match(r'^G:\(new_size \+ .*\) <= this->m_buf_capacity=T$', k) for k in CN(st)),
                   key_fn=lambda ev, fn=fn: '%s.K6:HeadersBase::%s:append-within-capacity' % (P, fn),
                   describe=lambda ev: 'bytes are appended only if text + index still fit the capacity', min_sites=nraw, what='buf_append')
        ns = [CN.s(expand(f, f.value_init(d))) for d, dj in enumerate(f.decls) if CN.s(dj['name']) == 'new_size' and f.value_init(d) is not None]
        ok = bool(ns) and 'value.size()' in ns[0] and 'm_buf_size' in ns[0] and (fn != 'insert' or 'key.size()' in ns[0])
        (R.held if ok else R.violated)(P + '.K11', '%s.K11:HeadersBase::%s:bound-over-what-is-written' % (P, fn), f.id, '%s:%d' % (f.file, f.line),
                                        'new_size = %s' % (ns[0] if ns else '?'))
    for fn in ('kv_add', 'kv_add_sort'):
        G = K.build(R, prog, H + fn)
        res = an.run(G, [an.GuardTracker(lambda k: True)])
        CN = K.canon({'kv': K.param(G.root, 0), 'begin': K.one(K.locals_assigned_from_call(G.root, r'::kv_begin$'), 'index start local', G.root)})
        wr = lambda ev, CN=CN: (ev.kind == 'call' and ev.callee() == 'memmove') or \
            ((ev.kind == 'binop' or (ev.kind == 'call' and ev.e.get('op') == '=')) and re.search(r'\(\w+ - 1\)', ev.show()) and '= kv' in CN.s(ev.show()).replace('(', ' ').replace(')', ' ')) or \
            (ev.kind == 'unop' and ev.e['op'] == '++' and (ev.path(ev.e['sub']) or '').endswith('m_kv_size'))
        K.check_at(R, P + '.K6', G, res, wr,
                   require=lambda st, ev, CN=CN: 'G:(begin - 1) <= (this->m_buf + this->m_buf_size)=F' in CN(st),
                   key_fn=lambda ev, fn=fn: '%s.K6:HeadersBase::%s:index-grows-only-above-text' % (P, fn),
                   describe=lambda ev: 'the index (growing downwards) takes a slot only if it stays above the header text', min_sites=2, what='index write')
    G = K.build(R, prog, H + 'reset_host')
    res = an.run(G, [an.GuardTracker(lambda k: True)])
    f = G.root
    host = K.param(f, 1)                        # (delta, host)
    CN = K.canon({'delta': K.param(f, 0), 'inner_delta': K.one(K.locals_defined_only_by(f, r'^\(%s\.size\(\) - .*\.size\(\)\)$' % re.escape(host)), 'growth of the Host value', f)})
    K.check_at(R, P + '.K6', G, res, lambda ev: ev.kind == 'call' and ev.callee() in ('memmove', M + 'buf_append'),
               require=lambda st, ev: 'G:this->space_remain() < (delta + inner_delta)=F' in CN(st),
               key_fn=lambda ev: P + '.K6:HeadersBase::reset_host:move-within-space', describe=lambda ev: 'header text is moved/rewritten only if the growth fits the remaining space', min_sites=2)


def body(R, prog):
    fs = [f for f in prog.funcs.values() if f.nname.endswith('ChunkedBodyReadStream::get_new_chunk')]
    R.require(len(fs) == 1, 'C13: ChunkedBodyReadStream::get_new_chunk not found')
    f = fs[0]
    G = K.build_f(R, prog, f)
    n = 0
    for nid, idx, ev in G.events():
        if ev.kind == 'call' and (ev.callee() or '').endswith('::recv'):
            n += 1
            dst, ln = ev.arg_show(0) or '', ev.arg_show(1) or ''
            m1 = re.match(r'^\(this->m_get_line_buf \+ (.+)\)$', dst)
            m2 = re.match(r'^\((\d+) - (.+)\)$', ln)
            ok = bool(m1 and m2 and m1.group(1) == m2.group(2))
            key = P + '.K11:ChunkedBodyReadStream::get_new_chunk:recv-length-is-capacity-minus-fill'
            (R.held if ok else R.violated)(P + '.K11', key, f.id, ev.loc(), 'recv(%s, %s)' % (dst, ln))
        if ev.kind == 'call' and ev.callee() == 'memmove':
            n += 1
            ok = ev.arg_show(0) == 'this->m_get_line_buf' and 'this->m_cursor' in (ev.arg_show(1) or '') and ev.arg_show(2) == '(this->m_line_size - this->m_cursor)'
            (R.held if ok else R.violated)(P + '.K11', P + '.K11:ChunkedBodyReadStream::get_new_chunk:compaction-within-buffer', f.id, ev.loc(), ev.show()[:100])
    if n < 2:
        R.broken.append('C13.K11: chunk line buffer writes not found')
    res = an.run(G, [an.GuardTracker(lambda k: True)])
    rr = K.locals_assigned_from_call(f, r'::recv$')
    R.require(len(rr) == 1, 'C13: get_new_chunk no longer keeps the result of recv in one local')
    rr = sorted(rr)[0]
    res3 = an.run(G, [an.GuardTracker(lambda k: True), an.SeenTracker([('recv', lambda ev: ev.kind == 'call' and (ev.callee() or '').endswith('::recv'))])])
    K.check_at(R, P + '.K6', G, res3, lambda ev: ev.kind == 'return' and ev.depth == 0,
               require=lambda st, ev: 'S:recv' not in st or
               (ev.f.const(ev.e['sub']) is None and ev.path(ev.e['sub']) == rr and ('G:%s < 0=T' % rr) in st) or
               (ev.f.const(ev.e['sub']) is not None and ev.f.const(ev.e['sub']) < 0) or
               (ev.f.const(ev.e['sub']) == 0 and ((('G:%s < 0=F' % rr) in st and (('G:%s == 0=F' % rr) in st or ('G:%s=T' % rr) in st)) or
                                                  ('G:%s <= 0=F' % rr) in st or ('G:0 < %s=T' % rr) in st or ('G:%s < 1=F' % rr) in st)),
               key_fn=lambda ev: P + '.K6:ChunkedBodyReadStream::get_new_chunk:eof-is-an-error-not-progress',
               describe=lambda ev: 'after recv(), 0 ("chunk header parsed") is returned only if bytes arrived; end-of-stream inside a chunked body is an error (the caller loops on 0)',
               min_sites=2, what='returns after recv')
    K.check_at(R, P + '.K6', G, res, lambda ev: ev.kind == 'call' and ev.callee() == 'memmove',
               require=lambda st, ev: 'G:this->m_cursor < this->m_line_size=T' in st,
               key_fn=lambda ev: P + '.K6:ChunkedBodyReadStream::get_new_chunk:compaction-only-with-pending-bytes', describe=lambda ev: 'compaction length m_line_size - m_cursor is positive', min_sites=1)


def run(R, prog, tier):
    R.guard(message, R, prog)
    R.guard(headers, R, prog)
    R.guard(body, R, prog)
