"""C17 — Cache layer (locking / pairing / clamp / provenance clauses, DESIGN.md §5 C17)."""
import re
from sa.facts import AnalysisBroken, strip_targs
from sa import analysis as an
from sa import rules as K

UNITS = ['fs/cache/store.cpp', 'fs/cache/full_file_cache/cache_store.cpp', 'fs/cache/full_file_cache/cache_pool.cpp',
         'fs/cache/full_file_cache/quota_pool.cpp']
FLOOR = 30
P = 'C17'
CLAIM = ('Decides for fs/cache/store.cpp and fs/cache/full_file_cache/*: (1) hole query + media read form one read-locked critical section; '
         'media writes hold the read lock; whole-file eviction by the pools happens only under the write lock of that store; (2) the refill '
         'byte-range lock of do_refill_range is taken before the source read, the failed acquire returns -EAGAIN without touching it, a '
         'release exists on both hand-off sides (deferred block / async_refill, which also drops the store reference and the refilling '
         'counter); (3) reads are clamped to the known source size before anything is looked up, and ONLY fully read source data is copied '
         'to the caller, written to the media or handed to the async writer (a short source read is an error); (4) the in-memory filled-range '
         'map is touched only under its spinlock, a range is recorded as filled only with the exact extent that was written / that the media '
         'file reports as data (never widened), while holes handed to the refill path are only widened. Byte-exactness under concurrent '
         'refill/eviction is NOT decided.')
FCS = 'photon::fs::FileCacheStore'
ICS = 'photon::fs::ICacheStore'


def locking(R, prog):
    G = K.build(R, prog, FCS + '::try_preadv2')
    res = an.run(G, [an.LockTracker()])
    K.check_at(R, P + '.K2', G, res, lambda ev: ev.kind == 'call' and ev.callee() == ICS + '::try_preadv2',
               require=lambda st, ev: an.has_lock(st, 'this->rw_lock_', 4096),
               key_fn=lambda ev: P + '.K2:FileCacheStore::try_preadv2:query-and-read-under-RLOCK',
               describe=lambda ev: 'hole query + media read run inside one read-locked section', min_sites=1, what='base try_preadv2')
    G = K.build(R, prog, FCS + '::do_pwritev')
    res = an.run(G, [an.LockTracker(), an.GuardTracker(lambda k: True)])
    K.check_at(R, P + '.K2', G, res, lambda ev: ev.kind == 'call' and (ev.callee() or '').split('::')[-1] in ('pwritev', 'ftruncate') and 'localFile_' in (ev.recv_path() or ''),
               require=lambda st, ev: an.has_lock(st, 'this->rw_lock_', 4096),
               key_fn=lambda ev: P + '.K2:FileCacheStore::do_pwritev:%s-under-RLOCK' % ev.callee().split('::')[-1],
               describe=lambda ev: 'media write / size extension under the store read lock (excluded by whole-file eviction)', min_sites=2, what='media write')
    wf = G.root
    woff = K.param(wf, 2)                                   # (iov, iovcnt, offset)
    wret = K.locals_assigned_from_call(wf, r'::pwritev$')      # the local that holds the media write's result
    R.require(len(wret) == 1, 'C17: do_pwritev no longer keeps the result of localFile_->pwritev in one local')
    wret = sorted(wret)[0]
    K.check_at(R, P + '.K11', G, res, lambda ev: ev.kind == 'call' and ev.callee() == FCS + '::addFilledRange',
               require=lambda st, ev: ev.arg_path(0) == woff and ev.arg_path(1) == wret and ('G:%s <= 0=F' % wret) in st and
               any(k.startswith('D:%s=' % wret) and 'pwritev(' in k for k in st),
               key_fn=lambda ev: P + '.K11:FileCacheStore::do_pwritev:filled-range-is-exactly-what-was-written',
               describe=lambda ev: 'the filled-range map records (offset, bytes written) only after a successful write', min_sites=1, what='addFilledRange')
    # pools evict whole files only under WLOCK of that store
    n = 0
    for f in prog.funcs.values():
        if not f.file.endswith(('cache_pool.cpp', 'quota_pool.cpp')):
            continue
        if not any(e['k'] == 'call' and strip_targs(e.get('fn') or '') == FCS + '::evict' for e in f.exprs):
            continue
        G = K.build_f(R, prog, f)
        res = an.run(G, [an.LockTracker()])
        n += K.check_at(R, P + '.K2', G, res, lambda ev: ev.kind == 'call' and ev.callee() == FCS + '::evict',
                        require=lambda st, ev: an.has_lock(st, (ev.recv_path() or '?') + '->rw_lock()', 8192),
                        key_fn=lambda ev, f=f: '%s.K2:%s:evict-under-WLOCK' % (P, f.nname.replace('photon::fs::', '')),
                        describe=lambda ev: 'whole-file eviction under the write lock of that store (no read in flight)', min_sites=1, what='evict')
    if n < 3:
        R.broken.append('C17.K2: expected >= 3 pool eviction sites, found %d' % n)
    funcs = [f for f in prog.funcs.values() if f.file.endswith('cache_store.cpp')]
    K.k3_field_guarded(R, P + '.K3', prog, funcs, FCS + '::filledRanges_', lambda base, ev: 'this->filledRangesLock_', min_sites=5)


def provenance(R, prog):
    f = prog.find(FCS + '::rebuildFilledRanges')
    G = K.build_f(R, prog, f)
    data = K.local_names_init_by(f, lambda e, i: e['k'] == 'call' and strip_targs(e.get('fn') or '').endswith('::lseek') and f.const(e['args'][1]) == 3)
    hole = K.local_names_init_by(f, lambda e, i: e['k'] == 'call' and strip_targs(e.get('fn') or '').endswith('::lseek') and f.const(e['args'][1]) == 4)
    R.require(data and hole, 'C17: rebuildFilledRanges no longer walks the media file with SEEK_DATA/SEEK_HOLE')
    res = an.run(G, [an.GuardTracker(lambda k: True)])

    def exact(st, ev):
        a0, a1 = ev.arg_show(0), ev.arg_show(1)
        return a0 in data and any(a1 == '(%s - %s)' % (h, a0) for h in hole) and any(('G:%s < 0=F' % a0) in st for _ in (0,)) and any(('G:%s < 0=F' % h) in st for h in hole)
    K.check_at(R, P + '.K11', G, res, lambda ev: ev.kind == 'call' and ev.callee() == FCS + '::addFilledRange', exact,
               key_fn=lambda ev: P + '.K11:FileCacheStore::rebuildFilledRanges:filled-range-is-exactly-the-data-extent',
               describe=lambda ev: 'a rebuilt filled range is exactly [SEEK_DATA, SEEK_HOLE) of the media file (not widened), after both seeks succeeded', min_sites=1, what='addFilledRange')
    # the hole handed to the refill path is only widened
    f = prog.find(FCS + '::queryRefillRangeByMap')
    downs = [f.show(e['args'][0]) for e in f.exprs if e['k'] == 'call' and strip_targs(e.get('fn') or '').endswith('align_down')]
    ups = [f.show(e['args'][0]) for e in f.exprs if e['k'] == 'call' and strip_targs(e.get('fn') or '').endswith('align_up')]
    ok = any(d.endswith('.first') for d in downs) and any(u.endswith('.second') for u in ups) and not any(d.endswith('.second') for d in downs) and not any(u.endswith('.first') for u in ups)
    (R.held if ok else R.violated)(P + '.K11', P + '.K11:FileCacheStore::queryRefillRangeByMap:hole-only-widened', f.id, '%s:%d' % (f.file, f.line),
                                    'hole start aligned down, hole end aligned up (%s / %s)' % (downs, ups))


def refill(R, prog):
    G = K.build(R, prog, ICS + '::do_refill_range')
    f = G.root
    pn = [f.decls[d]['name'] for d in f.j['params']]
    roff, rsize = pn[0], pn[1]
    BUF = K.one(K.local_names_init_by(f, lambda e, i: e['k'] == 'construct' and 'IOVector' in (e.get('fn') or '') and 'allocator_' in f.show(i)), 'refill buffer (IOVector on the store allocator)', f)
    RBUF = K.one(K.local_names_init_by(f, lambda e, i: e['k'] == 'construct' and 'IOVector' in (e.get('fn') or '') and (BUF + '.iovec()') in f.show(i)), 'view of the refill buffer', f)
    LOCKRETS = K.locals_assigned_from_call(f, r'RangeLock::try_lock_wait$')       # result of the range lock
    READRETS = K.locals_assigned_from_call(f, r'::preadv2$')                        # result of the source read (may be the same local)
    RETS = LOCKRETS | READRETS
    R.require(len(READRETS) >= 1, 'C17: do_refill_range no longer keeps the result of the source read in a local')
    REFILLING = K.one(K.locals_assigned_from_call(f, r'::load$'), 'sampled refilling counter', f)
    MAXR = K.one([d['name'] for d in f.decls if d['kind'] == 'staticlocal' and 'int' in (d.get('type') or '')], 'max refilling (static)', f)
    CN = K.canon({'buffer': BUF, 'refill_buf': RBUF, 'refilling': REFILLING, 'max_refilling': MAXR})
    srcread = lambda ev: ev.kind == 'call' and (ev.callee() or '').endswith('::preadv2') and 'src_file_' in (ev.recv_path() or '') and (ev.arg_show(0) or '') == BUF + '.iovec()'
    locked = lambda ev: ev.kind == 'call' and ev.callee() == 'RangeLock::try_lock_wait'
    unlock = lambda ev: ev.kind == 'call' and ev.callee() == 'RangeLock::unlock' and ev.arg_path(0) == roff and ev.arg_path(1) == rsize
    asyncw = lambda ev: ev.kind == 'call' and (ev.callee() or '').endswith('::thread_create') and 'async_refill' in ev.show()
    cachew = lambda ev: ev.kind == 'call' and ((ev.callee() or '').endswith('::do_pwritev2') or ((ev.callee() or '').endswith('::unpin_wbuf') and ev.f.const(ev.e['args'][1]) == 0))
    copyout = lambda ev: ev.kind == 'call' and (ev.callee() or '').endswith('::memcpy_to') and (ev.recv_path() or '') == RBUF
    seen = an.SeenTracker([('locked', locked), ('read', srcread), ('unlocked', unlock), ('async', asyncw)])
    res = an.run(G, [seen, an.GuardTracker(lambda k: ((any(re.search(r'(^|[^\w.>])%s($|[^\w])' % re.escape(n), k) for n in RETS) or ('preadv2(%s' % BUF) in k or 'try_lock_wait' in k) or k.startswith('%s <' % REFILLING)) and 'tr.' not in k, def_names=set(RETS))])

    def full_read(st):
        st = CN(st)
        return any(re.match(r'^G:\[.*src_file_->preadv2\(buffer.*\] == %s=T$' % re.escape(rsize), k) or
                   re.match(r'^G:%s == \[.*src_file_->preadv2\(buffer.*\]=T$' % re.escape(rsize), k) for k in st)
    K.check_at(R, P + '.K6', G, res, lambda ev: cachew(ev) or asyncw(ev) or copyout(ev),
               require=lambda st, ev: 'S:read' in st and full_read(st),
               key_fn=lambda ev: '%s.K6:ICacheStore::do_refill_range:only-fully-read-data-%s' % (P, 'copied-out' if copyout(ev) else ('queued' if asyncw(ev) else 'cached')),
               describe=lambda ev: 'source data is %s only if the source read returned exactly refill_size bytes' % ('copied to the caller' if copyout(ev) else 'written to the cache'),
               min_sites=4, what='cache write / copy-out')
    K.check_at(R, P + '.K8', G, res, srcread, require=lambda st, ev: 'S:locked' in st and ev.arg_path(2) == roff,
               key_fn=lambda ev: P + '.K8:ICacheStore::do_refill_range:range-locked-before-source-read',
               describe=lambda ev: 'the refill range is locked before the source is read into the refill buffer at refill_off', min_sites=1, what='source read')
    lockfail = lambda st: any(re.match(r'^G:\[.*try_lock_wait\(.*\)\] < 0=T$', k) or any(k == 'G:%s < 0=T' % n for n in LOCKRETS) for k in st) and 'S:read' not in st
    K.check_at(R, P + '.K7', G, res, lambda ev: ev.kind == 'exit',
               require=lambda st, ev: 'S:locked' not in st or (lockfail(st) and 'S:unlocked' not in st) or
               (not lockfail(st) and ('S:unlocked' in st or 'S:async' in st or 'G:refilling < max_refilling=T' in CN(st))),
               key_fn=lambda ev: P + '.K7:ICacheStore::do_refill_range:release-on-every-exit-side',
               describe=lambda ev: 'a failed try_lock_wait exits without unlocking; after a successful one every exit passed the deferred unlock(refill_off, refill_size) '
                                   'or handed the range to async_refill (which side releases is steered by a run-time comparison that is not decided)',
               min_sites=1, what='exit')
    K.check_at(R, P + '.K6', G, res, unlock, require=lambda st, ev: 'S:locked' in st,
               key_fn=lambda ev: P + '.K6:ICacheStore::do_refill_range:unlock-only-what-was-locked', describe=lambda ev: 'unlock only after a successful try_lock_wait', min_sites=1)
    # a short source read is an error
    K.check_at(R, P + '.K7', G, res, lambda ev: ev.kind == 'return' and ev.depth == 0 and ev.f.const(ev.e['sub']) is None or (ev.kind == 'return' and ev.depth == 0 and ev.f.const(ev.e['sub']) not in (-1, -11, None)),
               require=lambda st, ev: not any(re.match(r'^G:\[.*src_file_->preadv2\(buffer.*\] == %s=F$' % re.escape(rsize), k) or re.match(r'^G:%s == \[.*src_file_->preadv2\(buffer.*\]=F$' % re.escape(rsize), k) for k in CN(st)),
               key_fn=lambda ev: P + '.K7:ICacheStore::do_refill_range:short-read-is-an-error',
               describe=lambda ev: 'no success/count return on a path where the source read came back short', min_sites=1, what='non-error returns')
    # async side
    G = K.build(R, prog, ICS + '::async_refill')
    res = an.run(G, [an.SeenTracker([('unlocked', lambda ev: ev.kind == 'call' and ev.callee() == 'RangeLock::unlock' and 'refill_off' in (ev.arg_show(0) or '') and 'refill_size' in (ev.arg_show(1) or '')),
                                     ('released', lambda ev: ev.kind == 'call' and (ev.callee() or '').endswith('::release') and 'store' in (ev.recv_path() or '')),
                                     ('counted', lambda ev: (K.atomic_op(ev) or (None, ''))[1] == 'fetch_sub' and 'm_refilling' in (K.atomic_op(ev)[0] or '')),
                                     ('written', lambda ev: ev.kind == 'call' and ((ev.callee() or '').endswith('::do_pwritev2') or (ev.callee() or '').endswith('::unpin_wbuf')))])])
    K.check_at(R, P + '.K7', G, res, lambda ev: ev.kind == 'exit',
               require=lambda st, ev: all(('S:' + t) in st for t in ('unlocked', 'released', 'counted', 'written')),
               key_fn=lambda ev: P + '.K7:ICacheStore::async_refill:write-unlock-release-uncount',
               describe=lambda ev: 'the async writer writes, unlocks the handed-over range, drops the store reference and the refilling counter on every path', min_sites=1)
    # the producer side increments what the async side decrements
    G = K.build(R, prog, ICS + '::do_refill_range')
    inc = lambda ev: (K.atomic_op(ev) or (None, ''))[1] == 'fetch_add' and 'm_refilling' in (K.atomic_op(ev)[0] or '')
    refinc = lambda ev: (K.atomic_op(ev) or (None, ''))[1] == 'fetch_add' and (K.atomic_op(ev)[0] or '').endswith('ref_')
    res = an.run(G, [an.SeenTracker([('inc', inc), ('ref', refinc)])])
    K.check_at(R, P + '.K8', G, res, asyncw, require=lambda st, ev: 'S:inc' in st and 'S:ref' in st,
               key_fn=lambda ev: P + '.K8:ICacheStore::do_refill_range:count-and-pin-before-async',
               describe=lambda ev: 'refilling counter and store reference are taken before the async writer is created', min_sites=1)


def clamp(R, prog):
    G = K.build(R, prog, ICS + '::preadv2')
    f = G.root
    INPUT = K.one(K.local_names_init_by(f, lambda e, i: e['k'] == 'construct' and 'IOVector' in (e.get('fn') or '')), 'request vector', f)
    CN = K.canon({'offset': K.param(f, 2), 'actual_size': K.one(K.locals_defined_only_by(f, r'^this->actual_size_$'), 'snapshot of the known source size', f)})
    trim = lambda ev: ev.kind == 'call' and (ev.callee() or '').endswith('::extract_back') and (ev.recv_path() or '') == INPUT
    res = an.run(G, [an.GuardTracker(lambda k: True), an.SeenTracker([('trimmed', trim)])])
    look = lambda ev: ev.kind == 'call' and (ev.callee() or '').endswith(('::try_preadv2', '::do_refill_range')) and ev.depth == 0
    K.check_at(R, P + '.K6', G, res, look,
               require=lambda st, ev: 'G:offset < actual_size=T' in CN(st) and
               ('S:trimmed' in st or any(re.match(r'^G:\(offset \+ .*\) <= actual_size=T$', k) for k in CN(st))),
               key_fn=lambda ev: '%s.K6:ICacheStore::preadv2:clamped-before-%s' % (P, ev.callee().split('::')[-1]),
               describe=lambda ev: 'the request starts below the known source size and is trimmed to it before the cache is consulted', min_sites=3, what='lookup')
    K.check_at(R, P + '.K6', G, res, lambda ev: ev.kind == 'return' and ev.depth == 0 and ev.f.const(ev.e['sub']) == 0,
               require=lambda st, ev: True, key_fn=lambda ev: P + '.K6:ICacheStore::preadv2:eof-returns-0', describe=lambda ev: 'reads at/after EOF return 0', min_sites=1)


def interval_set(R, prog):
    """K9: the filled-range interval set is mutated only by the three operations that keep it a disjoint set of exactly the filled
    bytes - addRange (merges), removeRange (cuts the intervals that straddle the borders), clear.  Everything else (removeFrom, the
    queries) goes through them: an erase that bypasses removeRange keeps a straddling interval whole, i.e. claims bytes that were dropped."""
    RM = 'photon::fs::RangeModule'
    fs = [f for f in prog.funcs.values() if (f.rec or '') == RM]
    R.require(len(fs) >= 5, 'C17: RangeModule not found in the analysed units')
    allowed = {RM + '::addRange', RM + '::removeRange', RM + '::clear'}
    MUT = ('erase', 'clear', 'insert', 'emplace', 'emplace_hint', 'operator[]', 'swap', 'operator=', 'extract', 'merge')
    n = 0
    for f in sorted(fs, key=lambda f: f.line):
        for e in f.exprs:
            if e['k'] == 'call' and 'recv' in e and strip_targs(e.get('fn') or '').split('::')[-1] in MUT and (f.path(e['recv']) or '').endswith('intervals'):
                n += 1
                key = '%s.K9:RangeModule::%s:interval-set-mutated-only-by-add/removeRange/clear' % (P, f.nname.split('::')[-1])
                (R.held if f.nname in allowed else R.violated)(P + '.K9', key, f.id, f.locl(e['loc']), '%s in %s' % (f.show(f.exprs.index(e))[:70], f.nname.split('::')[-1]))
    if n < 4:
        R.broken.append('C17.K9: expected >= 4 mutations of RangeModule::intervals, found %d' % n)
    # removeFrom is removeRange with an open right end
    f = prog.find(RM + '::removeFrom')
    calls = [e for e in f.exprs if e['k'] == 'call' and strip_targs(e.get('fn') or '') == RM + '::removeRange']
    ok = len(calls) == 1 and f.path(calls[0]['args'][0]) == K.param(f, 0) and 'max' in f.show(calls[0]['args'][1])
    (R.held if ok else R.violated)(P + '.K10', P + '.K10:RangeModule::removeFrom:is-removeRange-to-the-end', f.id, '%s:%d' % (f.file, f.line),
                                    'removeFrom(offset) = removeRange(offset, max): the interval straddling `offset` is cut, not kept')


def run(R, prog, tier):
    R.guard(interval_set, R, prog)
    R.guard(locking, R, prog)
    R.guard(provenance, R, prog)
    R.guard(refill, R, prog)
    R.guard(clamp, R, prog)
