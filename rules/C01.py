"""C01 — Mutex / spinlocks (DESIGN.md §5 C01)."""
import re
from sa.facts import AnalysisBroken, strip_targs
from sa import analysis as an
from sa import rules as K
from rules import common as C

UNITS = ['thread/thread.cpp']
FLOOR = 30
CLAIM = ('Decides for thread/thread.{h,cpp}: (1) memory orders of every acquire/release atomic of spinlock, ticket_spinlock, '
         'qspinlock and mutex; (2) mutex::lock returns 0 only on a path that verified ownership (try_lock()==0, or the woken path '
         're-read owner==CURRENT); recursive_mutex counts only after owner==CURRENT or lock()==0; (3) the internal spinlock of '
         'mutex::lock is held at the enqueue-and-sleep hand-off and released exactly once on every exit; (4) do_mutex_unlock stores the new '
         'owner before waking it, both inside one critical section of m->splock with the head thread locked, and wakes the head whenever '
         'there is one; unlock() reaches it only after owner==CURRENT; (5) prelocked_thread_interrupt / dequeue_ready_atomic are only '
         'called with the target thread\'s lock held; no call that may yield happens while a spinlock is held.')

P = 'C01'
# blocking primitives a wait path may sleep through
SLEEPS = {'thread_usleep', 'thread_usleep_defer', 'wait', 'wait_defer', 'do_thread_usleep', 'do_thread_usleep_defer'}


def k1(R, prog):
    T = [
        ('photon::spinlock::xchg', '_lock', 'exchange', 'acquire'),
        ('photon::spinlock::unlock', '_lock', 'store', 'release'),
        ('photon::ticket_spinlock::lock', 'serv', 'load', 'acquire'),
        ('photon::ticket_spinlock::unlock', 'serv', 'store', 'release'),
        ('photon::qspinlock::try_lock', '_owner_tail', 'compare_exchange_strong', 'acq_rel'),
        ('photon::qspinlock::lock', '_owner_tail', 'exchange', 'acq_rel'),
        ('photon::qspinlock::lock', 'next', 'store', 'release'),
        ('photon::qspinlock::lock', 'got_lock', 'load', 'acquire'),
        ('photon::qspinlock::unlock', 'next', 'load', 'acquire'),
        ('photon::qspinlock::unlock', '_owner_tail', 'compare_exchange_strong', 'release'),
        ('photon::mutex::try_lock', 'owner', 'compare_exchange_strong', 'acquire'),
        ('photon::mutex::lock', 'owner', 'load', 'acquire'),
        ('photon::do_mutex_unlock', 'owner', 'store', 'release'),
    ]
    for fn, obj, op, need in T:
        R.guard(K.k1_atomic_order, R, prog, P + '.K1', fn, obj, op, need)
    # the hand-over is the store of `true` into the successor's flag (a relaxed re-arm of one's own flag is not a hand-over)
    R.guard(K.k1_atomic_order, R, prog, P + '.K1', 'photon::qspinlock::unlock', 'got_lock', 'store', 'release', value=1)
    R.guard(qspin_rearm, R, prog)
    R.guard(owner_release_under_splock, R, prog)


def owner_release_under_splock(R, prog):
    """K3: apart from the acquiring CAS, the owner word of a mutex is written (cleared or handed over) only inside the mutex's splock
    critical section - wherever that write is.  lock() holds splock from its last failed try until it is linked into the wait queue;
    an owner store outside splock can fall into that window, free the mutex and wake nobody."""
    n = 0
    for f in sorted([g for g in prog.funcs.values() if g.file.endswith(('thread/thread.cpp', 'thread/thread.h')) and g.blocks], key=lambda g: (g.file, g.line)):
        if not any(e['k'] == 'call' and 'recv' in e and (f.path(e['recv']) or '').endswith('owner') and
                   strip_targs(e.get('fn') or '').split('::')[-1] in ('store', 'exchange', 'operator=') for e in f.exprs):
            continue
        if f.kind == 'ctor':
            continue
        G = K.build_f(R, prog, f)
        res = an.run(G, [an.LockTracker()])
        st_owner = lambda ev: (K.atomic_op(ev) or (None, None))[1] in ('store', 'operator=', 'exchange') and (K.atomic_op(ev)[0] or '').endswith('owner')
        def under(st, ev):
            base = (K.atomic_op(ev)[0] or '')[:-len('owner')]
            return an.has_lock(st, base + 'splock')
        n += K.check_at(R, P + '.K3', G, res, st_owner, under,
                        key_fn=lambda ev, f=f: '%s.K3:%s:owner-written-under-splock' % (P, f.nname),
                        describe=lambda ev: 'mutex::owner is cleared / handed over only with that mutex\'s splock held', min_sites=1, what='owner store') or 0
    if n < 1:
        R.broken.append('C01.K3: no store to mutex::owner found')


def qspin_rearm(R, prog):
    """K8: a queued waiter clears its own got_lock flag before it publishes itself to its predecessor (old_tail->next = h); the flag it
    spins on afterwards is that same one.  A flag left `true` from an earlier hand-over lets the waiter fall through the wait loop."""
    G = K.build(R, prog, 'photon::qspinlock::lock')
    f = G.root
    own = lambda p: (p or '').rsplit('.', 1)[0].rsplit('->', 1)[0]
    reset = lambda ev: (K.atomic_op(ev) or (None, None))[1] in ('store', 'operator=') and (K.atomic_op(ev)[0] or '').endswith('got_lock') and ev.e.get('args') and ev.f.const(ev.e['args'][0]) == 0
    publish = lambda ev: (K.atomic_op(ev) or (None, None))[1] in ('store', 'operator=', 'exchange') and (K.atomic_op(ev)[0] or '').endswith('next') and ev.e.get('args') and ev.f.const(ev.e['args'][0]) is None
    res = an.run(G, [an.SeenTracker([('reset', reset), ('published', publish)])])
    K.check_at(R, P + '.K8', G, res, lambda ev: ev.kind == 'return' and ev.depth == 0, require=lambda st, ev: 'S:published' not in st or 'S:reset' in st,
               key_fn=lambda ev: P + '.K8:photon::qspinlock::lock:own-flag-cleared-before-enqueue',
               describe=lambda ev: 'a waiter that queued itself has re-armed (cleared) its own got_lock flag in this acquisition - before linking itself behind the predecessor, or after its spin ended', min_sites=2, what='returns of qspinlock::lock')
    spin = [ev for _, _, ev in G.events() if (K.atomic_op(ev) or (None, None))[1] == 'load' and (K.atomic_op(ev)[0] or '').endswith('got_lock')]
    rs = [ev for _, _, ev in G.events() if reset(ev)]
    ok = bool(spin) and bool(rs) and all(own(K.atomic_op(a)[0]) == own(K.atomic_op(b)[0]) for a in spin for b in rs)
    (R.held if ok else R.violated)(P + '.K8', P + '.K8:photon::qspinlock::lock:spins-on-the-flag-it-cleared', f.id, '%s:%d' % (f.file, f.line),
                                    'the flag cleared before enqueueing is the flag polled afterwards')


def mutex_lock(R, prog):
    rule6, rule4 = P + '.K6', P + '.K4'
    G = K.build(R, prog, 'photon::mutex::lock')
    f = G.root
    # locals that hold the sleep result and the re-read owner (by initialiser, not by name)
    ret_names = K.local_names_init_by(f, lambda e, i: e['k'] == 'call' and strip_targs(e.get('fn') or '').split('::')[-1] in SLEEPS)
    own_names = K.local_names_init_by(f, lambda e, i: e['k'] == 'call' and 'owner' in f.show(i) and
                                      strip_targs(e.get('fn') or '').startswith(('std::atomic', 'std::__atomic')))
    R.require(ret_names, 'C01: mutex::lock no longer sleeps (anchor vanished)')
    lt = an.LockTracker()
    lt.strict.add('this->splock')
    gt = an.GuardTracker(lambda k: True)
    res = an.run(G, [lt, gt, an.ConstTracker()])

    def owner_verified(st):
        for x in st:
            if not x.startswith('G:') or not x.endswith('=T'):
                continue
            k = x[2:-2]
            m = re.match(r'^(.+) == photon::CURRENT$', k)
            if m and (m.group(1) in own_names or 'owner' in m.group(1)):
                return True
        return False

    def not_a_handoff(st):
        """facts that exclude the `0` outcome of waitq_translate_errno(ret): ret >= 0, errno != -1, or their conjunction false"""
        for r in ret_names:
            if ('G:%s < 0=F' % r) in st or ('G:((%s < 0) && (errno == -1))=F' % r) in st:
                return True
        return 'G:errno == -1=F' in st

    # (2a) literal `return 0` only after try_lock()==0 on that path
    K.check_at(R, rule6, G, res,
               target=lambda ev: ev.kind == 'return' and ev.depth == 0 and ev.f.const(ev.e['sub']) == 0,
               require=lambda st, ev: 'G:this->try_lock()=F' in st,
               key_fn=lambda ev: rule6 + ':photon::mutex::lock:return0',
               describe=lambda ev: '`return 0` requires try_lock()==0 on the path',
               min_sites=2, what='return 0')
    # (2b) the return after the sleep: a hand-off wake-up (ret<0 && errno==-1 -> translated to 0) requires owner==CURRENT re-read
    K.check_at(R, rule6, G, res,
               target=lambda ev: K.returned_call(ev) and ev.callee() == 'photon::waitq_translate_errno',
               require=lambda st, ev: not_a_handoff(st) or owner_verified(st),
               key_fn=lambda ev: rule6 + ':photon::mutex::lock:return-after-sleep',
               describe=lambda ev: 'return %s: woken-as-owner path must have re-read owner==CURRENT' % ev.show()[:60],
               min_sites=1, what='return of translated sleep result')
    # (2c) a timeout is declared only inside the splock critical section in which the try just failed: a waiter that was woken
    # as the designated next owner (contending mode) must try before it may give up, or the mutex stays free with sleepers queued
    res_t = an.run(G, [lt, an.GuardTracker(lambda k: 'try_lock' in k, lock_tracker=lt), an.ConstTracker()])
    K.check_at(R, rule6, G, res_t,
               target=lambda ev: ev.kind == 'binop' and ev.e['op'] == '=' and ev.path(ev.e['l']) == 'errno' and ev.f.const(ev.e['r']) == 110,
               require=lambda st, ev: an.has_lock(st, 'this->splock') and ('G:this->try_lock() == 0=F' in st or 'G:this->try_lock()=T' in st),
               key_fn=lambda ev: rule6 + ':photon::mutex::lock:timeout-only-after-failed-try-under-splock',
               describe=lambda ev: 'ETIMEDOUT is declared only with splock held and after try_lock() failed inside that critical section',
               min_sites=1, what='errno = ETIMEDOUT')
    # (3) internal spinlock: held at the hand-off, released exactly once on every exit
    K.check_at(R, rule4, G, res,
               target=lambda ev: ev.kind == 'call' and (ev.callee() or '').split('::')[-1] in SLEEPS,
               require=lambda st, ev: an.has_lock(st, 'this->splock') and ('handoff', 'this->splock') in lt.effects(ev),
               key_fn=lambda ev: rule4 + ':photon::mutex::lock:handoff(splock)',
               describe=lambda ev: 'sleep hands off this->splock (must be held and passed as the deferred unlock)',
               min_sites=1, what='thread_usleep_defer')
    K.check_at(R, rule4, G, res,
               target=lambda ev: (ev.kind == 'return' and ev.depth == 0) or ev.kind == 'exit',
               require=lambda st, ev: not an.has_lock(st, 'this->splock') and 'XU:this->splock' not in st and 'XL:this->splock' not in st,
               key_fn=lambda ev: rule4 + ':photon::mutex::lock:exit(splock)',
               describe=lambda ev: 'exit with this->splock released exactly once',
               min_sites=4, what='exits')


def recursive(R, prog):
    rule = P + '.K6'
    for fn in ('photon::recursive_mutex::lock', 'photon::recursive_mutex::try_lock'):
        G = K.build(R, prog, fn)
        res = an.run(G, [an.GuardTracker(lambda k: True)])

        def ok(st, ev):
            for x in st:
                if x.startswith('G:') and 'owner' in x and x.endswith('== photon::CURRENT=T'):
                    return True
                if re.match(r'^G:this->(photon::mutex::)?(lock|try_lock)\(.*\)=F$', x):
                    return True
            return False
        K.check_at(R, rule, G, res,
                   target=lambda ev: (K.written_member(ev) or ('',))[0] == 'photon::recursive_mutex::recursive_count',
                   require=ok,
                   key_fn=lambda ev, fn=fn: '%s:%s:count++' % (rule, fn),
                   describe=lambda ev: 'recursive_count++ requires owner==CURRENT or lock()==0',
                   min_sites=1, what='recursive_count write')
        K.check_at(R, rule, G, res,
                   target=lambda ev: ev.kind == 'return' and ev.depth == 0 and ev.f.const(ev.e['sub']) == 0,
                   require=ok,
                   key_fn=lambda ev, fn=fn: '%s:%s:return0' % (rule, fn),
                   describe=lambda ev: 'return 0 requires owner==CURRENT or lock()==0',
                   min_sites=1, what='return 0')


def unlock_side(R, prog):
    # do_mutex_unlock: one critical section, store before wake, wake whenever there is a head
    G = K.build(R, prog, 'photon::do_mutex_unlock')
    PM = K.param(G.root, 0)
    lt = an.LockTracker()
    st_owner = lambda ev: (K.atomic_op(ev) or (None, None))[1] in ('store', 'operator=', 'exchange') and (K.atomic_op(ev)[0] or '').endswith('owner')
    wake = lambda ev: ev.kind == 'call' and ev.callee() == 'photon::prelocked_thread_interrupt'
    seen = an.SeenTracker([('owner_store', st_owner), ('wake', wake)])
    gt = an.GuardTracker(lambda k: True)
    res = an.run(G, [lt, seen, gt])
    # the thread that is made the owner: every non-null operand of the stored value
    f = G.root

    def stored_threads(ev):
        out = []

        def walk(i):
            i = f.skip(i)
            e = f.x(i)
            if e is None:
                return
            if e['k'] == 'cond':
                walk(e['t'])
                walk(e['f'])
                return
            if e['k'] == 'lit':
                return
            p = f.path(i, ev.ctx)
            out.append(p if p is not None else f.show(i, ev.ctx))
        if ev.e.get('args'):
            walk(ev.e['args'][0])
        return out
    cands = set()
    for nid, idx, ev in G.events():
        if st_owner(ev):
            cands |= set(stored_threads(ev))
    R.require(len(cands) >= 1, 'C01: do_mutex_unlock stores no thread into owner (anchor vanished)')

    def new_owner_locked(st, ev):
        ts = stored_threads(ev)
        return an.has_lock(st, PM + '->splock') and all((('LH:' + t) in st) or an.has_lock(st, t + '->lock') for t in ts)
    K.check_at(R, P + '.K2', G, res, st_owner, new_owner_locked,
               key_fn=lambda ev: P + '.K2:photon::do_mutex_unlock:owner.store',
               describe=lambda ev: 'owner.store under m->splock, and the thread being made owner (%s) is locked at that moment' % stored_threads(ev),
               min_sites=1, what='owner store')
    h = sorted(cands)[0]
    anywake = lambda ev: ev.kind == 'call' and (ev.callee() or '').split('::')[-1] in ('resume_one', 'resume_all', 'thread_interrupt', 'notify_one', 'notify_all')
    for nid, idx, ev in G.events():
        if anywake(ev):
            R.violated(P + '.K8', P + '.K8:photon::do_mutex_unlock:wakes-unidentified-thread', f.id, ev.loc(),
                       '%s wakes whichever thread is at the head now, not the thread stored into owner' % ev.show()[:60])
    K.check_at(R, P + '.K8', G, res, wake,
               require=lambda st, ev: 'S:owner_store' in st and an.has_lock(st, PM + '->splock') and ev.arg_path(0) in cands and an.has_lock(st, ev.arg_path(0) + '->lock'),
               key_fn=lambda ev: P + '.K8:photon::do_mutex_unlock:wake-after-store',
               describe=lambda ev: 'the stored owner itself is woken, after owner.store, under m->splock and its thread lock',
               min_sites=1, what='prelocked_thread_interrupt')
    # must-wake: a non-null head is woken on every path to the exit.
    K.check_at(R, P + '.K7', G, res, lambda ev: ev.kind == 'exit',
               require=lambda st, ev: ('G:%s=T' % h) not in st or 'S:wake' in st,
               key_fn=lambda ev: P + '.K7:photon::do_mutex_unlock:must-wake',
               describe=lambda ev: 'non-null head => prelocked_thread_interrupt called before exit',
               min_sites=1, what='exit')
    K.check_at(R, P + '.K7', G, res, lambda ev: ev.kind == 'exit',
               require=lambda st, ev: 'S:owner_store' in st,
               key_fn=lambda ev: P + '.K7:photon::do_mutex_unlock:must-store',
               describe=lambda ev: 'owner.store on every path',
               min_sites=1, what='exit')

    for fn in ('photon::mutex::unlock', 'photon::recursive_mutex::unlock'):
        G = K.build(R, prog, fn)
        f = G.root
        own = K.local_names_init_by(f, lambda e, i: e['k'] == 'call' and 'owner' in f.show(i))
        res = an.run(G, [an.GuardTracker(lambda k: True)])

        def ok(st, ev, own=own):
            for x in st:
                m = re.match(r'^G:(.+) == photon::CURRENT=T$', x)
                if m and (m.group(1) in own or 'owner' in m.group(1)):
                    return True
            return False
        K.check_at(R, P + '.K6', G, res,
                   target=lambda ev: ev.kind == 'call' and ev.callee() == 'photon::do_mutex_unlock',
                   require=ok,
                   key_fn=lambda ev, fn=fn: '%s.K6:%s:call(do_mutex_unlock)' % (P, fn),
                   describe=lambda ev: 'do_mutex_unlock only after owner==CURRENT was established',
                   min_sites=1, what='call of do_mutex_unlock')
        if 'recursive' in fn:
            K.check_at(R, P + '.K6', G, res,
                       target=lambda ev: ev.kind == 'call' and ev.callee() == 'photon::do_mutex_unlock',
                       require=lambda st, ev: any(re.match(r'^G:--this->recursive_count <= 0=T$', x) or re.match(r'^G:this->recursive_count <= 0=T$', x) or
                                                  re.match(r'^G:(--)?this->recursive_count(--)?=F$', x) or re.match(r'^G:(--)?this->recursive_count == 0=T$', x) for x in st),
                       key_fn=lambda ev: P + '.K6:photon::recursive_mutex::unlock:count-reached-zero',
                       describe=lambda ev: 'do_mutex_unlock only when the recursion count dropped to zero',
                       min_sites=1, what='call of do_mutex_unlock')


def run(R, prog, tier):
    k1(R, prog)
    R.guard(mutex_lock, R, prog)
    R.guard(recursive, R, prog)
    R.guard(unlock_side, R, prog)
    R.guard(C.thread_lock_contracts, R, prog, P)
    R.guard(C.reason_not_overwritten, R, prog, P)
    R.guard(C.no_yield_under_spinlock, R, prog, P, files=('thread/thread.cpp', 'thread/thread.h'))
