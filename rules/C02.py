"""C02 — Semaphore (DESIGN.md §5 C02)."""
import re
from sa.facts import AnalysisBroken, strip_targs
from sa import analysis as an
from sa import rules as K

UNITS = ['thread/thread.cpp']
FLOOR = 20
P = 'C02'
CLAIM = ('Decides for photon::semaphore: (1) the token count m_count is written only by the constructor, signal (fetch_add) and '
         'try_subtract (CAS guarded by !(mc < count) with new value mc - count); (2) signal performs add + resume pass under the semaphore '
         'spinlock, try_resume is only called with it held, and wait_interruptible re-takes it after every wake-up before touching any member '
         'or returning, releasing it exactly once on exit (destroy-after-wait clause); (3) wait_interruptible returns 0 only after a '
         'successful try_subtract and returns the failure only with ret<0; (4) the failure return re-runs the resume pass unless in '
         'out-of-order mode or no tokens remain; (5) thread::semaphore_count is accessed only under the semaphore spinlock; memory orders of '
         'the count atomics.')
SCOUNT = 'photon::thread::(anonymous union)::semaphore_count'


def k1(R, prog):
    R.guard(K.k1_atomic_order, R, prog, P + '.K1', 'photon::semaphore::try_subtract', 'm_count', 'compare_exchange_strong', 'acq_rel')
    R.guard(K.k1_atomic_order, R, prog, P + '.K1', 'photon::semaphore::signal', 'm_count', 'fetch_add', 'acq_rel')


def writers(R, prog):
    K.k9_who_writes(R, P + '.K9', prog, 'photon::semaphore::m_count',
                    allowed={'photon::semaphore::semaphore', 'photon::semaphore::signal', 'photon::semaphore::try_subtract'}, min_sites=3)


def try_subtract(R, prog):
    G = K.build(R, prog, 'photon::semaphore::try_subtract')
    f = G.root
    res = an.run(G, [an.GuardTracker(lambda k: True)])
    cas = lambda ev: (K.atomic_op(ev) or (None, ''))[1].startswith('compare_exchange') and (K.atomic_op(ev)[0] or '').endswith('m_count')
    cnt = f.decls[f.j['params'][0]]['name']

    def ok(st, ev):
        exp = ev.arg_show(0)
        des = ev.e['args'][1]
        de = f.x(f.skip(des))
        if de is not None and de['k'] == 'ref':
            vi = f.value_init(de['decl'])
            des_show = f.show(vi) if vi is not None and vi >= 0 else f.show(des)
        else:
            des_show = f.show(des)
        return ('G:%s < %s=F' % (exp, cnt)) in st and des_show == '(%s - %s)' % (exp, cnt)
    K.check_at(R, P + '.K6', G, res, cas, ok,
               key_fn=lambda ev: P + '.K6:photon::semaphore::try_subtract:cas',
               describe=lambda ev: 'CAS(m_count: mc -> mc-count) requires !(mc < count) on the path and desired == mc - count',
               min_sites=1, what='CAS on m_count')
    K.check_at(R, P + '.K6', G, res, lambda ev: ev.kind == 'return' and ev.depth == 0 and ev.f.const(ev.e['sub']) == 1,
               require=lambda st, ev: any(re.match(r'^G:this->m_count\.compare_exchange_\w+\(.*\)=T$', x) for x in st),
               key_fn=lambda ev: P + '.K6:photon::semaphore::try_subtract:return-true',
               describe=lambda ev: '`return true` only after a successful CAS', min_sites=1, what='return true')


def signal(R, prog):
    G = K.build(R, prog, 'photon::semaphore::signal')
    res = an.run(G, [an.LockTracker()])
    K.check_at(R, P + '.K2', G, res,
               target=lambda ev: (K.atomic_op(ev) or (None, ''))[1] == 'fetch_add' and (K.atomic_op(ev)[0] or '').endswith('m_count'),
               require=lambda st, ev: an.has_lock(st, 'this->splock'),
               key_fn=lambda ev: P + '.K2:photon::semaphore::signal:fetch_add',
               describe=lambda ev: 'm_count.fetch_add under this->splock', min_sites=1, what='fetch_add')
    # try_resume requires this->splock at every call site
    n = 0
    for f in K.callers_of(prog, 'photon::semaphore::try_resume'):
        G = K.build_f(R, prog, f)
        res = an.run(G, [an.LockTracker()])
        n += K.k2_requires_lock(R, P + '.K2', G, res, 'photon::semaphore::try_resume', lock_of=lambda ev: 'this->splock', min_sites=1)
    if n < 2:
        R.broken.append('C02.K2: expected >= 2 call sites of semaphore::try_resume, found %d' % n)
    # signal must run the resume pass after adding
    G = K.build(R, prog, 'photon::semaphore::signal')
    res = an.run(G, [an.SeenTracker([('add', lambda ev: (K.atomic_op(ev) or (None, ''))[1] == 'fetch_add'),
                                     ('resume', lambda ev: ev.kind == 'call' and ev.callee() == 'photon::semaphore::try_resume')])])
    K.check_at(R, P + '.K7', G, res, lambda ev: ev.kind == 'exit',
               require=lambda st, ev: 'S:add' not in st or 'S:resume' in st,
               key_fn=lambda ev: P + '.K7:photon::semaphore::signal:resume-after-add',
               describe=lambda ev: 'every path that added tokens runs try_resume', min_sites=1, what='exit')


def wait_interruptible(R, prog):
    G = K.build(R, prog, 'photon::semaphore::wait_interruptible')
    f = G.root
    lt = an.LockTracker()
    lt.strict.add('this->splock')
    seen = an.SeenTracker([('resume', lambda ev: ev.kind == 'call' and ev.callee() == 'photon::semaphore::try_resume'),
                           ('sleep', lambda ev: ev.kind == 'call' and (ev.callee() or '').split('::')[-1] in ('wait_defer', 'wait', 'thread_usleep_defer', 'thread_usleep'), ('resume',))])
    res = an.run(G, [lt, an.GuardTracker(lambda k: True), seen])
    ret_names = K.local_names_init_by(f, lambda e, i: e['k'] == 'call' and strip_targs(e.get('fn') or '').split('::')[-1] in ('wait_defer', 'wait', 'thread_usleep_defer')) | \
        K.locals_assigned_from_call(f, r'::(wait_defer|wait|thread_usleep_defer)$')
    R.require(ret_names, 'C02: wait_interruptible no longer sleeps through waitq::wait_defer')
    cnt = f.decls[f.j['params'][0]]['name']
    # every sleep is a hand-off of the held splock
    K.check_at(R, P + '.K4', G, res,
               target=lambda ev: ev.kind == 'call' and (ev.callee() or '').split('::')[-1] in ('wait_defer', 'wait', 'thread_usleep_defer', 'thread_usleep'),
               require=lambda st, ev: an.has_lock(st, 'this->splock') and ('handoff', 'this->splock') in lt.effects(ev),
               key_fn=lambda ev: P + '.K4:photon::semaphore::wait_interruptible:handoff(splock)',
               describe=lambda ev: 'sleep hands off this->splock', min_sites=1, what='sleep call')
    # members of the semaphore are only touched with splock held (re-lock after wake-up precedes them)
    K.check_at(R, P + '.K3', G, res,
               target=lambda ev: ev.kind == 'member' and ev.e.get('rec') in ('photon::semaphore', 'photon::waitq') and ev.e['name'] != 'splock'
               and ev.path(ev.e['base']) == 'this',
               require=lambda st, ev: an.has_lock(st, 'this->splock'),
               key_fn=lambda ev: '%s.K3:photon::semaphore::wait_interruptible:%s' % (P, ev.e['name']),
               describe=lambda ev: 'access %s requires this->splock (re-taken after every wake-up)' % ev.show(),
               min_sites=2, what='member access')
    K.check_at(R, P + '.K3', G, res,
               target=lambda ev: ev.kind == 'call' and ev.callee() in ('photon::semaphore::try_subtract', 'photon::semaphore::try_resume'),
               require=lambda st, ev: an.has_lock(st, 'this->splock'),
               key_fn=lambda ev: '%s.K3:photon::semaphore::wait_interruptible:call(%s)' % (P, ev.callee().split('::')[-1]),
               describe=lambda ev: '%s under this->splock' % ev.show(), min_sites=2, what='member call')
    K.check_at(R, P + '.K3', G, res, lambda ev: K.touches_field(ev, SCOUNT, G),
               require=lambda st, ev: an.has_lock(st, 'this->splock'),
               key_fn=lambda ev: P + '.K3:photon::semaphore::wait_interruptible:semaphore_count',
               describe=lambda ev: 'thread::semaphore_count touched under this->splock: %s' % ev.show()[:60], min_sites=3, what='semaphore_count use')
    # exits: lock released exactly once; every return (other than the count==0 shortcut) happens with the lock held
    K.check_at(R, P + '.K4', G, res, lambda ev: ev.kind == 'exit',
               require=lambda st, ev: not an.has_lock(st, 'this->splock') and 'XU:this->splock' not in st and 'XL:this->splock' not in st,
               key_fn=lambda ev: P + '.K4:photon::semaphore::wait_interruptible:exit(splock)',
               describe=lambda ev: 'exit with this->splock released exactly once', min_sites=1, what='exit')
    K.check_at(R, P + '.K4', G, res, lambda ev: ev.kind == 'return' and ev.depth == 0,
               require=lambda st, ev: an.has_lock(st, 'this->splock') or ('G:%s=F' % cnt) in st,
               key_fn=lambda ev: P + '.K4:photon::semaphore::wait_interruptible:return-holds-splock',
               describe=lambda ev: 'return statement reached with this->splock re-taken (waiter touches the semaphore last)', min_sites=3, what='return')
    # results
    K.check_at(R, P + '.K6', G, res, lambda ev: ev.kind == 'return' and ev.depth == 0 and ev.f.const(ev.e['sub']) == 0,
               require=lambda st, ev: ('G:%s=F' % cnt) in st or ('G:this->try_subtract(%s)=T' % cnt) in st,
               key_fn=lambda ev: P + '.K6:photon::semaphore::wait_interruptible:return0',
               describe=lambda ev: '`return 0` requires count==0 or try_subtract(count)==true', min_sites=2, what='return 0')

    def failure_return(ev):
        return ev.kind == 'return' and ev.depth == 0 and ev.f.const(ev.e['sub']) is None
    K.check_at(R, P + '.K6', G, res, failure_return,
               require=lambda st, ev: any(('G:%s < 0=T' % r) in st for r in ret_names) and ('G:this->try_subtract(%s)=T' % cnt) not in st,
               key_fn=lambda ev: P + '.K6:photon::semaphore::wait_interruptible:return-failure',
               describe=lambda ev: 'failure return only with ret<0 and without a successful subtraction', min_sites=1, what='return ret')
    # (4) interrupted waiter re-runs the resume pass unless excused (out-of-order mode, or no tokens left)
    tok_names = set()
    for e in f.exprs:
        if e['k'] == 'binop' and e['op'] == '=':
            r = f.x(f.skip(e['r']))
            l = f.x(f.skip(e['l']))
            if r is not None and l is not None and l['k'] == 'ref' and r['k'] == 'call' and 'm_count' in f.show(e['r']):
                tok_names.add(l['name'])
    tok_names |= K.local_names_init_by(f, lambda e, i: e['k'] == 'call' and 'm_count' in f.show(i))

    def excused(st):
        if 'G:this->m_ooo_resume=T' in st:
            return True
        return any(('G:%s=F' % t) in st for t in tok_names) or any(re.match(r'^G:this->m_count(\.load\(.*\))?=F$', x) for x in st)
    K.check_at(R, P + '.K7', G, res, failure_return,
               require=lambda st, ev: 'S:resume' in st or excused(st),
               key_fn=lambda ev: P + '.K7:photon::semaphore::wait_interruptible:re-resume-on-interrupt',
               describe=lambda ev: 'failure return passes try_resume unless out-of-order mode or no tokens remain', min_sites=1, what='return ret')


def try_resume(R, prog):
    G = K.build(R, prog, 'photon::semaphore::try_resume')
    res = an.run(G, [an.LockTracker()], init=frozenset(['L:this->splock']))
    R.exception(P + '.K3', 'semaphore::try_resume body', 'analysed under its contract (this->splock held), verified at both call sites')
    K.check_at(R, P + '.K3', G, res, lambda ev: K.touches_field(ev, SCOUNT),
               require=lambda st, ev: an.has_lock(st, 'this->splock'),
               key_fn=lambda ev: P + '.K3:photon::semaphore::try_resume:semaphore_count',
               describe=lambda ev: 'waiter demand read under this->splock: %s' % ev.show()[:60], min_sites=2, what='semaphore_count use')


def wake_discipline(R, prog):
    """In try_resume: (a) the waiter that is woken was obtained in a way that proves it is still queued - through ScopedLockHead
    (lock the head, then re-validate it), or by walking the queue under the queue lock; a head pointer read without the queue lock
    may have timed out / been interrupted meanwhile, because a waiter leaves the queue under its thread lock and the queue lock, not
    under splock.  (b) prelocked_thread_interrupt() -> thread::dequeue_ready_atomic() takes the wait-queue lock itself, so it must not
    be called with that (non-recursive) lock held."""
    G = K.build(R, prog, 'photon::semaphore::try_resume')
    res = an.run(G, [an.LockTracker()], init=frozenset(['L:this->splock']))
    wake = lambda ev: ev.kind == 'call' and ev.callee() == 'photon::prelocked_thread_interrupt'
    qlock = lambda st: an.has_lock(st, 'this->q.lock')
    K.check_at(R, P + '.K2', G, res, wake,
               require=lambda st, ev: any(k.startswith('LH:') for k in st) or qlock(st),
               key_fn=lambda ev: P + '.K2:photon::semaphore::try_resume:woken-waiter-is-still-queued',
               describe=lambda ev: 'the waiter being woken was obtained through ScopedLockHead (locked, then re-validated as head) or under the queue lock', min_sites=2, what='prelocked_thread_interrupt')
    K.check_at(R, P + '.K5', G, res, wake,
               require=lambda st, ev: not qlock(st),
               key_fn=lambda ev: P + '.K5:photon::semaphore::try_resume:no-wake-under-the-queue-lock',
               describe=lambda ev: 'prelocked_thread_interrupt() dequeues the waiter under the wait-queue spinlock: calling it with that lock held spins forever', min_sites=2, what='prelocked_thread_interrupt')


def wait_defer_is_atomic(R, prog):
    """K8/K11: waitq::wait_defer() - the only sleep of the semaphore - hands the caller's unlock callback to the deferred switch
    together with its own queue; it never runs the callback itself (that would release the lock before the waiter is queued)."""
    f = prog.find('photon::waitq::wait_defer', sig='void (*)(void *)')
    G = K.build_f(R, prog, f)
    pn = [f.decls[d]['name'] for d in f.j['params']]
    R.require(len(pn) >= 3, 'C02: waitq::wait_defer(timeout, defer, arg) changed its signature')
    defer, darg = pn[1], pn[2]
    direct = [ev for _, _, ev in G.events() if ev.kind == 'call' and not ev.e.get('fn') and 'calleeExpr' in ev.e and (ev.f.x(ev.f.skip(ev.e['calleeExpr'])) or {}).get('name') == defer]
    key = P + '.K8:photon::waitq::wait_defer:callback-only-through-the-deferred-switch'
    if direct:
        R.violated(P + '.K8', key, f.id, direct[0].loc(), 'the unlock callback is invoked directly (%s): the lock is released before the waiter is in the queue' % direct[0].show()[:60])
    sleeps = [ev for _, _, ev in G.events() if ev.kind == 'call' and (ev.callee() or '').split('::')[-1] in ('thread_usleep_defer', 'thread_usleep', 'wait')]
    ok = [ev for ev in sleeps if (ev.callee() or '').endswith('thread_usleep_defer') and defer in [ev.arg_path(i) for i in range(len(ev.e['args']))] and
          darg in [ev.arg_path(i) for i in range(len(ev.e['args']))] and any('q' in (ev.arg_show(i) or '') for i in range(len(ev.e['args'])))]
    if not direct:
        (R.held if ok and len(ok) == len(sleeps) else R.violated)(P + '.K8', key, f.id, (sleeps[0].loc() if sleeps else '%s:%d' % (f.file, f.line)),
                                                                  'sleeps through thread_usleep_defer(timeout, &q, defer, arg): release-and-enqueue is one step')


def run(R, prog, tier):
    R.guard(wait_defer_is_atomic, R, prog)
    R.guard(wake_discipline, R, prog)
    k1(R, prog)
    R.guard(writers, R, prog)
    R.guard(try_subtract, R, prog)
    R.guard(signal, R, prog)
    R.guard(wait_interruptible, R, prog)
    R.guard(try_resume, R, prog)
