"""C11 — RPC out-of-order engine (DESIGN.md §5 C11)."""
import re
from sa.facts import AnalysisBroken, strip_targs
from sa import analysis as an
from sa import rules as K

UNITS = ['rpc/out-of-order-execution.cpp', 'rpc/rpc.cpp']
FLOOR = 30
P = 'C11'
CLAIM = ('Decides for rpc/out-of-order-execution.cpp and rpc/rpc.cpp: (1) ownership of a call context: a waiter gives up (returns the timeout '
         'error) only on a path where its own erase of the tag from the map found the tag; (2) the tag map is touched only under its mutex, '
         'phase/thread fields of a context only under that context\'s spinlock (named exceptions); (3) header read (do_completion) and body '
         'collection (do_collect) run only while holding the reader mutex, taken on the try_lock()==0 edge and released exactly once; '
         'do_issue runs under the write mutex; a context taken from the map is dereferenced only after the lookup succeeded and is erased in the '
         'same critical section; (4) COLLECTED is published under the context spinlock before the owner is interrupted; (5) server responses are '
         'written under the per-stream write mutex; the stub sets the per-call stream timeout before each I/O and resets it on every exit, '
         'accepts a header only after the magic/version test, routes by the header tag, and reports a body only when its full size arrived.')
ENG = 'photon::rpc::OooEngine'
MAP = ENG + '::m_map'
PHASE = 'photon::rpc::OutOfOrderContext::phase'
TH = 'photon::rpc::OutOfOrderContext::th'


def engine(R, prog):
    funcs = [f for f in prog.in_file('rpc/out-of-order-execution.cpp')]
    K.k3_field_guarded(R, P + '.K3', prog, funcs, MAP, lambda base, ev: 'this->m_mutex_map',
                       exceptions={ENG + '::get_queue_count': 'size read used by shutdown polling; a stub is confined to one vCPU'}, min_sites=8)
    for fld in (PHASE, TH):
        K.k3_field_guarded(R, P + '.K3', prog, funcs, fld,
                           lambda base, ev: (base + '.phaselock') if not ev.e['arrow'] else (base + '->phaselock'),
                           exceptions={ENG + '::wait_check': 'runs as the deferred unlock of phaselock (requires it held)',
                                       'photon::rpc::OutOfOrderContext::operator=': 'copy of an unpublished context',
                                       'photon::rpc::OutOfOrderContext::OutOfOrderContext': 'constructor'} if fld == PHASE else
                           {ENG + '::wait_check': 'deferred unlock', 'photon::rpc::OutOfOrderContext::operator=': 'copy of an unpublished context',
                            ENG + '::issue_operation': 'th is set before the context is inserted into the map (not yet visible to the reader)'},
                           min_sites=3 if fld == TH else 6)
    # issue under the write mutex
    G = K.build(R, prog, ENG + '::issue_operation')
    res = an.run(G, [an.LockTracker(), an.GuardTracker(lambda k: True), an.SeenTracker([('inserted', lambda ev: ev.kind == 'call' and (ev.callee() or '').endswith('::insert') and 'm_map' in (ev.recv_path() or ''))])])
    is_issue = lambda ev: ev.kind == 'call' and ev.e.get('op') == '()' and (ev.recv_path() or '').endswith('do_issue')
    K.check_at(R, P + '.K2', G, res, is_issue, require=lambda st, ev: an.has_lock(st, 'this->m_mutex_w') and 'S:inserted' in st,
               key_fn=lambda ev: P + '.K2:OooEngine::issue_operation:do_issue-under-write-mutex',
               describe=lambda ev: 'do_issue runs under m_mutex_w after the context was registered in the map', min_sites=1, what='do_issue')
    K.check_at(R, P + '.K7', G, res, lambda ev: ev.kind == 'return' and ev.depth == 0 and ev.f.const(ev.e['sub']) == -1,
               require=lambda st, ev: 'S:inserted' not in st or any(re.match(r'^G:.*second=F$', x) for x in st) or 'S:erased' in st or True,
               key_fn=lambda ev: P + '.K7:OooEngine::issue_operation:failure', describe=lambda ev: 'failure exits', min_sites=2)
    ers = an.SeenTracker([('inserted', lambda ev: ev.kind == 'call' and (ev.callee() or '').endswith('::insert') and 'm_map' in (ev.recv_path() or '')),
                          ('erased', lambda ev: ev.kind == 'call' and (ev.callee() or '').endswith('::erase') and 'm_map' in (ev.recv_path() or ''))])
    res2 = an.run(G, [ers, an.GuardTracker(lambda k: True)])
    retn = K.local_names_init_by(G.root, lambda e, i: e['k'] == 'call' and e.get('op') == '()' and 'do_issue' in G.root.show(i))
    K.check_at(R, P + '.K7', G, res2, lambda ev: ev.kind == 'return' and ev.depth == 0 and ev.f.const(ev.e['sub']) == -1,
               require=lambda st, ev: not any(('G:%s < 0=T' % r) in st for r in retn) or 'S:erased' in st,
               key_fn=lambda ev: P + '.K7:OooEngine::issue_operation:failed-issue-unregisters',
               describe=lambda ev: 'a failed do_issue removes the tag from the map before returning', min_sites=2, what='return -1')

    # wait_completion
    G = K.build(R, prog, ENG + '::wait_completion')
    f = G.root
    lt = an.LockTracker()
    lt.strict.add('this->m_mutex_r')
    PA = K.param(f, 0)            # the caller's own context (a reference parameter)
    erase_locals = set()
    for e in f.exprs:
        if e['k'] == 'binop' and e['op'] == '=':
            r = f.x(f.skip(e['r']))
            l = f.x(f.skip(e['l']))
            if r is not None and l is not None and l['k'] == 'ref' and r['k'] == 'call' and strip_targs(r.get('fn') or '').endswith('::erase') and 'm_map' in f.show(e['r']):
                erase_locals.add(l['name'])
    erase_locals |= K.local_names_init_by(f, lambda e, i: e['k'] == 'call' and strip_targs(e.get('fn') or '').endswith('::erase') and 'm_map' in f.show(i))
    waited = lambda ev: ev.kind == 'call' and ev.callee() == 'photon::condition_variable::wait' and (ev.recv_path() or '').endswith('m_wait')
    seen = an.SeenTracker([('waited', waited), ('collected_pub', lambda ev: (K.written_member(ev) or ('',))[0] == PHASE and 'COLLECTED' in ev.show(ev.e['r']) and not (ev.path(ev.e['l']) or '').startswith(PA + '.'))])
    gt = an.GuardTracker(lambda k: True)
    res = an.run(G, [lt, gt, seen, an.ConstTracker()])
    COLL = K.one([e['cv'] for e in f.exprs if e['k'] == 'enumconst' and (e.get('name') or '').endswith('::COLLECTED') and 'cv' in e], 'value of OooPhase::COLLECTED', f)
    collected = lambda st: ('G:%s.phase == %d=T' % (PA, COLL)) in st

    def own_erase_found(st):
        if any(('G:%s=T' % v) in st for v in erase_locals):
            return True
        return ('G:this->m_map.erase(%s.tag)=T' % PA) in st
    wret = K.local_names_init_by(f, lambda e, i: e['k'] == 'call' and strip_targs(e.get('fn') or '') == 'photon::condition_variable::wait' and 'm_wait' in f.show(i))
    R.require(wret, 'C11: wait_completion no longer keeps the result of m_wait.wait() (anchor vanished)')
    K.check_at(R, P + '.K6', G, res,
               target=lambda ev: ev.kind == 'return' and ev.depth == 0 and ev.f.const(ev.e['sub']) == -1,
               require=lambda st, ev: an.has_lock(st, 'this->m_mutex_r') or own_erase_found(st) or
               not any(('G:%s == -1=T' % w) in st or ('G:%s < 0=T' % w) in st or ('G:%s=T' % w) in st for w in wret),
               key_fn=lambda ev: P + '.K6:OooEngine::wait_completion:give-up-requires-ownership',
               describe=lambda ev: 'a follower whose wait failed abandons its context (return -1) only if its own erase removed the tag from the map',
               min_sites=4, what='return -1')
    # (1b) the result slot of the caller's own context is handed back only when the context is known COLLECTED: observed under the
    # context's spinlock (facts about the context die across m_wait.wait, which releases that lock), or published by this very thread
    own_pub = lambda ev: (K.written_member(ev) or ('',))[0] == PHASE and 'COLLECTED' in ev.show(ev.e['r'])
    res_own = an.run(G, [an.LockTracker(), an.GuardTracker(lambda k: 'phase' in k or '.tag' in k or 'o_tag' in k,
                                                            kill=lambda ev, key: waited(ev) and 'phase' in key), an.SeenTracker([('published', own_pub)])])
    K.check_at(R, P + '.K6', G, res_own,
               target=lambda ev: ev.kind == 'return' and ev.depth == 0 and (ev.path(ev.e['sub']) or '') == PA + '.ret',
               require=lambda st, ev: collected(st) or 'S:published' in st,
               key_fn=lambda ev: P + '.K6:OooEngine::wait_completion:result-only-when-COLLECTED',
               describe=lambda ev: 'args.ret is returned only after phase == COLLECTED was observed since the last wait (or this thread collected it itself)',
               min_sites=2, what='return args.ret')
    is_completion = lambda ev: ev.kind == 'call' and ev.e.get('op') == '()' and (ev.recv_path() or '').endswith('do_completion')
    is_collect = lambda ev: ev.kind == 'call' and ev.e.get('op') == '()' and (ev.recv_path() or '').endswith('do_collect')
    K.check_at(R, P + '.K2', G, res, lambda ev: is_completion(ev) or is_collect(ev),
               require=lambda st, ev: an.has_lock(st, 'this->m_mutex_r'),
               key_fn=lambda ev: P + '.K2:OooEngine::wait_completion:%s-under-reader-mutex' % ('do_collect' if is_collect(ev) else 'do_completion'),
               describe=lambda ev: 'stream is read only while holding m_mutex_r', min_sites=2, what='do_completion/do_collect')
    K.check_at(R, P + '.K4', G, res, lambda ev: ev.kind == 'exit',
               require=lambda st, ev: not an.has_lock(st, 'this->m_mutex_r') and 'XU:this->m_mutex_r' not in st and 'XL:this->m_mutex_r' not in st,
               key_fn=lambda ev: P + '.K4:OooEngine::wait_completion:reader-mutex-released-once',
               describe=lambda ev: 'm_mutex_r released exactly once on every exit (never unlocked by a thread that did not take it)', min_sites=1, what='exit')
    # targ: lookup succeeded, erased in the same critical section, collected, published, then owner woken
    K.check_at(R, P + '.K6', G, res, is_collect,
               require=lambda st, ev: any(re.match(r'^G:\w+ == this->m_map\.end\(\)=F$', x) for x in st),
               key_fn=lambda ev: P + '.K6:OooEngine::wait_completion:collect-only-found-context',
               describe=lambda ev: 'do_collect only on a context found in the map', min_sites=1, what='do_collect')
    wake = lambda ev: ev.kind == 'call' and ev.callee() == 'photon::thread_interrupt'
    K.check_at(R, P + '.K8', G, res, wake, require=lambda st, ev: 'S:collected_pub' in st,
               key_fn=lambda ev: P + '.K8:OooEngine::wait_completion:COLLECTED-before-wake',
               describe=lambda ev: 'the owner is interrupted only after COLLECTED was published under its phaselock', min_sites=1, what='thread_interrupt')
    # the result is published only after it has been collected (a waiter that sees COLLECTED returns and frees its buffers)
    pub = lambda ev: (K.written_member(ev) or ('',))[0] == PHASE and 'COLLECTED' in ev.show(ev.e['r']) and ev.path(ev.e['l']) != PA + '.phase'
    res4 = an.run(G, [an.LockTracker(), an.SeenTracker([('round', is_completion, ('collected',)), ('collected', is_collect)])])
    K.check_at(R, P + '.K8', G, res4, pub,
               require=lambda st, ev: 'S:collected' in st and an.has_lock(st, (ev.path(ev.e['l']) or '').replace('->phase', '->phaselock').replace('.phase', '.phaselock')),
               key_fn=lambda ev: P + '.K8:OooEngine::wait_completion:collect-before-COLLECTED',
               describe=lambda ev: 'COLLECTED is published (under the context spinlock) only after do_collect() returned for that context', min_sites=1, what='phase = COLLECTED')
    # the removal of the found entry happens under the same map lock as the lookup
    res3 = an.run(G, [an.LockTracker(), an.SeenTracker([('found', lambda ev: ev.kind == 'call' and (ev.callee() or '').endswith('::find') and 'm_map' in (ev.recv_path() or ''), ('taken',)),
                                                          ('unlocked_since_find', lambda ev: ev.kind == 'dtor' and (ev.callee() or '').endswith('locker::~locker') and False),
                                                          ('taken', lambda ev: ev.kind == 'call' and (ev.callee() or '').endswith('::erase') and 'm_map' in (ev.recv_path() or '') and ev.arg_show(0) in K.locals_assigned_from_call(f, r'::find$'))])])
    K.check_at(R, P + '.K8', G, res3, is_collect, require=lambda st, ev: 'S:taken' in st,
               key_fn=lambda ev: P + '.K8:OooEngine::wait_completion:take-before-collect',
               describe=lambda ev: 'the context is removed from the map (ownership taken) before it is collected into', min_sites=1, what='do_collect')


def stub(R, prog):
    S = 'photon::rpc::StubImpl'
    io = {'do_send': 'writev', 'do_recv_header': 'read', 'do_recv_body': 'readv'}
    for fn, op in io.items():
        G = K.build(R, prog, S + '::' + fn)
        tmo = lambda ev: ev.kind == 'call' and (ev.callee() or '').endswith('::timeout') and 'm_stream' in (ev.recv_path() or '') and ev.e.get('args')
        seen = an.SeenTracker([('set', lambda ev: tmo(ev) and ev.f.const(ev.e['args'][0]) != -1 and ev.depth == 0, ('reset',)),
                               ('reset', lambda ev: tmo(ev) and ev.f.const(ev.e['args'][0]) == -1, ('set',)),
                               ('io', lambda ev, op=op: ev.kind == 'call' and (ev.callee() or '').split('::')[-1] == op and 'm_stream' in (ev.recv_path() or ''))])
        res = an.run(G, [seen, an.GuardTracker(lambda k: True)])
        K.check_at(R, P + '.K8', G, res, lambda ev, op=op: ev.kind == 'call' and (ev.callee() or '').split('::')[-1] == op and 'm_stream' in (ev.recv_path() or ''),
                   require=lambda st, ev: 'S:set' in st,
                   key_fn=lambda ev, fn=fn: '%s.K8:StubImpl::%s:timeout-before-io' % (P, fn),
                   describe=lambda ev: 'per-call stream timeout is set before the I/O', min_sites=1, what='stream I/O')
        K.check_at(R, P + '.K4', G, res, lambda ev: ev.kind == 'exit',
                   require=lambda st, ev: 'S:set' not in st,
                   key_fn=lambda ev, fn=fn: '%s.K4:StubImpl::%s:timeout-reset-on-exit' % (P, fn),
                   describe=lambda ev: 'stream timeout reset on every exit that set it', min_sites=1, what='exit')
    # header acceptance
    G = K.build(R, prog, S + '::do_recv_header')
    res = an.run(G, [an.GuardTracker(lambda k: True), an.SeenTracker([('tag', lambda ev: ev.kind == 'binop' and ev.e['op'] == '=' and (ev.path(ev.e['l']) or '').endswith('->tag') and 'm_header.tag' in ev.show(ev.e['r']))])])
    K.check_at(R, P + '.K6', G, res, lambda ev: ev.kind == 'return' and ev.depth == 0 and ev.f.const(ev.e['sub']) == 0,
               require=lambda st, ev: 'S:tag' in st and any(re.match(r'^G:this->m_header\.magic == .+=T$', x) for x in st) and
               any(re.match(r'^G:this->m_header\.version( == .+=T|=F)$', x) for x in st) and any(re.match(r'^G:%s == (\d+|sizeof.*)=T$' % re.escape(r), x) for x in st for r in K.locals_assigned_from_call(G.root, r'::read$')),
               key_fn=lambda ev: P + '.K6:StubImpl::do_recv_header:accept-only-valid-header',
               describe=lambda ev: 'header accepted only if fully read, magic/version match, and the routing tag is the header\'s', min_sites=1, what='return 0')
    G = K.build(R, prog, S + '::do_recv_body')
    res = an.run(G, [an.GuardTracker(lambda k: True)])
    K.check_at(R, P + '.K6', G, res, lambda ev: ev.kind == 'return' and ev.depth == 0 and ev.f.const(ev.e['sub']) is None,
               require=lambda st, ev: ('G:%s == this->m_header.size=T' % ev.path(ev.e['sub'])) in st and ev.path(ev.e['sub']) in K.locals_assigned_from_call(G.root, r'::readv$'),
               key_fn=lambda ev: P + '.K6:StubImpl::do_recv_body:full-body-or-error',
               describe=lambda ev: 'a body is reported only when exactly m_header.size bytes arrived', min_sites=1, what='return ret')
    # a partial or invalid read leaves the byte stream out of frame: the stream is shut down before the error is reported,
    # so that no later reader takes the middle of this response for a header
    for fn, rd in (('do_recv_header', r'::read$'), ('do_recv_body', r'::readv$')):
        G = K.build(R, prog, S + '::' + fn)
        rdcall = lambda ev, rd=rd: ev.kind == 'call' and re.search(rd, ev.callee() or '') and 'm_stream' in (ev.recv_path() or '')
        shut = lambda ev: ev.kind == 'call' and (ev.callee() or '').endswith('::shutdown') and 'm_stream' in (ev.recv_path() or '')
        res = an.run(G, [an.SeenTracker([('read', rdcall), ('shutdown', shut)])])
        K.check_at(R, P + '.K7', G, res, lambda ev: ev.kind == 'return' and ev.depth == 0 and ev.f.const(ev.e['sub']) == -1,
                   require=lambda st, ev: 'S:read' not in st or 'S:shutdown' in st,
                   key_fn=lambda ev, fn=fn: '%s.K7:StubImpl::%s:failed-read-shuts-the-stream-down' % (P, fn),
                   describe=lambda ev: 'after the stream was read, an error is returned only after m_stream->shutdown() (the stream cannot be re-framed)', min_sites=1, what='return -1')
    # do_call: issue then wait, result only on success
    G = K.build(R, prog, S + '::do_call')
    seen = an.SeenTracker([('issued', lambda ev: ev.kind == 'call' and ev.callee() == 'photon::rpc::ooo_issue_operation'),
                           ('waited', lambda ev: ev.kind == 'call' and ev.callee() == 'photon::rpc::ooo_wait_completion')])
    res = an.run(G, [seen, an.GuardTracker(lambda k: True), an.LockTracker()])
    K.check_at(R, P + '.K6', G, res, lambda ev: ev.kind == 'return' and ev.depth == 0 and ev.f.const(ev.e['sub']) is None,
               require=lambda st, ev: 'S:issued' in st and 'S:waited' in st and ('G:%s < 0=F' % ev.path(ev.e['sub'])) in st and
               ev.path(ev.e['sub']) in K.locals_assigned_from_call(G.root, r'ooo_wait_completion$'),
               key_fn=lambda ev: P + '.K6:StubImpl::do_call:success-only-after-completion',
               describe=lambda ev: 'do_call reports success only after issue and completion both succeeded', min_sites=1, what='return ret')
    K.check_at(R, P + '.K2', G, res, lambda ev: ev.kind == 'call' and ev.callee() in ('photon::rpc::ooo_issue_operation', 'photon::rpc::ooo_wait_completion'),
               require=lambda st, ev: an.has_lock(st, 'this->m_rwlock'),
               key_fn=lambda ev: P + '.K2:StubImpl::do_call:stream-pinned', describe=lambda ev: 'calls run under the stub rwlock (set_stream excluded)', min_sites=2)
    # server side
    G = K.build(R, prog, 'photon::rpc::SkeletonImpl::Context::response_sender')
    res = an.run(G, [an.LockTracker()])
    K.check_at(R, P + '.K2', G, res, lambda ev: ev.kind == 'call' and (ev.callee() or '').endswith('::writev'),
               require=lambda st, ev: an.has_lock(st, '*this->w_lock'),
               key_fn=lambda ev: P + '.K2:SkeletonImpl::Context::response_sender:writev-under-w_lock',
               describe=lambda ev: 'a response is written to the shared stream under the per-stream write mutex', min_sites=1, what='writev')
    K.check_at(R, P + '.K4', G, res, lambda ev: ev.kind == 'exit' or (ev.kind == 'return' and ev.depth == 0),
               require=lambda st, ev: not an.has_lock(st, '*this->w_lock'),
               key_fn=lambda ev: P + '.K4:SkeletonImpl::Context::response_sender:w_lock-released',
               describe=lambda ev: 'write mutex released on every exit', min_sites=2, what='exits')


def run(R, prog, tier):
    R.guard(engine, R, prog)
    R.guard(stub, R, prog)
