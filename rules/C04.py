"""C04 — Sleep / timeout / interrupt (DESIGN.md §5 C04)."""
import re
from sa.facts import AnalysisBroken, strip_targs
from sa import analysis as an
from sa import rules as K
from rules import common as C

UNITS = ['thread/thread.cpp']
FLOOR = 30
P = 'C04'
CLAIM = ('Decides for the scheduler of thread/thread.cpp: (1) sleep-queue back-index maintenance: every store into a heap slot is followed by '
         'the matching idx update, every removal resets idx to -1, push records the slot; (2) the wake-up reason is consumed exactly where the '
         'sleep returns (the four sleep primitives return set_error_number() evaluated after the switch; set_error_number delivers and clears '
         'in one step; thread_yield clears before switching and a function that returns error_number must clear it); an unlocked interrupt '
         'only marks a READY thread whose error_number is 0; (3) the vCPU-private heap is popped only on the owner vCPU path, the cross-vCPU '
         'path goes through the standby queue and cancels the target engine wait; heap mutators are called only from the three scheduler '
         'functions; timed-out sleepers are dequeued under their thread lock after re-testing SLEEPING; (4) the shutdown cap (10 ms, EPERM) is '
         'routed by every blocking entry point.')
IDX = 'photon::thread::idx'
ERRN = 'photon::thread::error_number'


def wr_field(ev, field):
    w = K.written_member(ev)
    return bool(w) and w[0] == field


def sleepq(R, prog):
    # update_node / pop / pop_front : slot store paired with idx update
    for fn in ('photon::SleepQueue::update_node', 'photon::SleepQueue::pop', 'photon::SleepQueue::pop_front'):
        G = K.build(R, prog, fn)
        f = G.root
        stores = []
        for nid, idx, ev in G.events():
            if ev.kind == 'binop' and ev.e['op'] == '=':
                lp = ev.path(ev.e['l'])
                if lp and re.match(r'^this->q\[.+\]$', lp):
                    stores.append((ev, lp, lp[len('this->q['):-1]))
        if fn.endswith('update_node') and not stores:
            R.broken.append('C04.K13: SleepQueue::update_node no longer stores into q[idx]')
        for sev, lp, ix in stores:
            is_store = lambda ev, sev=sev: ev.x == sev.x and ev.f is sev.f
            def is_fix(ev, lp=lp, ix=ix):
                if not wr_field(ev, IDX):
                    return False
                tgt = ev.path(ev.e['l']) if ev.kind == 'binop' else None
                if tgt not in (lp + '->idx',):
                    return False
                c = ev.f.const(ev.e['r'])
                rs = str(c) if c is not None else ev.show(ev.e['r'])
                return rs == ix
            res = an.run(G, [an.SeenTracker([('store', is_store, ('fix',)), ('fix', is_fix, ('store',))])])
            K.check_at(R, P + '.K13', G, res, lambda ev: ev.kind == 'exit' or (ev.kind == 'call' and (ev.callee() or '').split('::')[-1] in ('up', 'down')),
                       require=lambda st, ev: 'S:store' not in st,
                       key_fn=lambda ev, fn=fn, ix=ix: '%s.K13:%s:slot[%s]-store-then-idx' % (P, fn, ix),
                       describe=lambda ev, lp=lp, ix=ix: 'store into %s is followed by %s->idx = %s before the heap is sifted / the function exits' % (lp, lp, ix),
                       min_sites=1, what='exit')
    # removal resets idx
    for fn in ('photon::SleepQueue::pop', 'photon::SleepQueue::pop_front'):
        G = K.build(R, prog, fn)
        f = G.root
        reset = lambda ev: wr_field(ev, IDX) and ev.kind == 'binop' and ev.f.const(ev.e['r']) == -1
        rem = lambda ev: ev.kind == 'call' and (ev.callee() or '').endswith('::pop_back')
        res = an.run(G, [an.SeenTracker([('reset', reset), ('removed', rem)]), an.GuardTracker(lambda k: True)])
        K.check_at(R, P + '.K13', G, res, lambda ev: ev.kind == 'return' and ev.depth == 0,
                   require=lambda st, ev: ('S:reset' in st and 'S:removed' in st) or ('S:removed' not in st and 'S:reset' not in st and any(re.match(r'^G:\w+ == -1=T$', x) for x in st)),
                   key_fn=lambda ev, fn=fn: '%s.K13:%s:removal-resets-idx' % (P, fn),
                   describe=lambda ev: 'every return has removed one slot and reset the removed node\'s idx to -1 (or removed nothing because idx was -1)',
                   min_sites=2, what='returns')
    G = K.build(R, prog, 'photon::SleepQueue::push')
    res = an.run(G, [an.SeenTracker([('pushed', lambda ev: ev.kind == 'call' and (ev.callee() or '').endswith('::push_back')),
                                     ('idx', lambda ev: wr_field(ev, IDX) and 'size()' in ev.show(ev.e['r']))])])
    K.check_at(R, P + '.K13', G, res, lambda ev: ev.kind == 'call' and ev.callee() == 'photon::SleepQueue::up',
               require=lambda st, ev: 'S:pushed' in st and 'S:idx' in st,
               key_fn=lambda ev: P + '.K13:photon::SleepQueue::push:idx-recorded-before-sift',
               describe=lambda ev: 'push appends, records idx = size()-1, then sifts up', min_sites=1, what='up()')
    K.k9_who_calls(R, P + '.K9', prog, 'photon::SleepQueue::push', {'photon::prepare_usleep'}, min_sites=1)
    K.k9_who_calls(R, P + '.K9', prog, 'photon::SleepQueue::pop', {'photon::resume_threads_inlined', 'photon::prelocked_thread_interrupt'}, min_sites=2)
    K.k9_who_calls(R, P + '.K9', prog, 'photon::SleepQueue::pop_front', {'photon::resume_threads_inlined'}, min_sites=1)
    K.k9_who_writes(R, P + '.K9', prog, IDX, {'photon::SleepQueue::push', 'photon::SleepQueue::pop', 'photon::SleepQueue::pop_front',
                                              'photon::SleepQueue::update_node'}, min_sites=6)


def consumption(R, prog):
    prims = [('photon::do_thread_usleep', None), ('photon::do_thread_usleep_defer', None),
             ('photon::thread_usleep', 'thread_list'), ('photon::thread_usleep_defer', 'thread_list')]
    for fn, sig in prims:
        f = prog.find(fn, sig=sig)
        G = K.build_f(R, prog, f)
        sw = lambda ev: ev.kind == 'call' and ev.callee() in ('photon::switch_context', 'photon::switch_context_defer')
        prep = lambda ev: ev.kind == 'call' and ev.callee() == 'photon::prepare_usleep'
        res = an.run(G, [an.SeenTracker([('prepared', prep), ('switched', sw)]), an.GuardTracker(lambda k: True)])
        label = fn + ('(waitq)' if sig else '')
        K.check_at(R, P + '.K7', G, res, lambda ev: K.returned_call(ev),
                   require=lambda st, ev: ev.callee() in ('photon::thread::set_error_number', 'photon::yield_as_sleep') and
                   ('S:switched' in st or ev.callee() == 'photon::yield_as_sleep'),
                   key_fn=lambda ev, label=label: '%s.K7:%s:returns-consumed-reason' % (P, label),
                   describe=lambda ev: 'returns %s evaluated after the context switch' % ev.show()[:50], min_sites=1, what='returned call')
        K.check_at(R, P + '.K8', G, res, sw, require=lambda st, ev: 'S:prepared' in st,
                   key_fn=lambda ev, label=label: '%s.K8:%s:prepare-before-switch' % (P, label),
                   describe=lambda ev: 'prepare_usleep precedes the switch', min_sites=1, what='switch')
        for nid, idx, ev in G.events():
            if ev.kind == 'return' and ev.depth == 0:
                se = ev.f.x(ev.f.skip(ev.e['sub']))
                if se is None or se['k'] != 'call':
                    R.violated(P + '.K7', '%s.K7:%s:returns-consumed-reason' % (P, label), f.id, ev.loc(), 'returns %s, not the consumed wake-up reason' % ev.show()[:60])
    # set_error_number: deliver and clear in one step
    G = K.build(R, prog, 'photon::thread::set_error_number')
    clr = lambda ev: wr_field(ev, ERRN) and ev.kind == 'binop' and ev.f.const(ev.e['r']) == 0
    seterr = lambda ev: ev.kind == 'binop' and ev.e['op'] == '=' and ev.path(ev.e['l']) == 'errno' and 'error_number' in ev.show(ev.e['r'])
    res = an.run(G, [an.SeenTracker([('cleared', clr), ('errno', seterr)]), an.GuardTracker(lambda k: True)])
    K.check_at(R, P + '.K13', G, res, lambda ev: ev.kind == 'return' and ev.depth == 0 and ev.f.const(ev.e['sub']) == -1,
               require=lambda st, ev: 'S:cleared' in st and 'S:errno' in st and 'G:this->error_number=T' not in st or ('S:cleared' in st and 'S:errno' in st),
               key_fn=lambda ev: P + '.K13:photon::thread::set_error_number:deliver-and-clear',
               describe=lambda ev: '-1 is returned only after errno := error_number and error_number := 0', min_sites=1, what='return -1')
    K.check_at(R, P + '.K13', G, res, lambda ev: ev.kind == 'return' and ev.depth == 0 and ev.f.const(ev.e['sub']) == 0,
               require=lambda st, ev: 'G:this->error_number=F' in st,
               key_fn=lambda ev: P + '.K13:photon::thread::set_error_number:zero-means-none',
               describe=lambda ev: '0 is returned only when no reason was pending', min_sites=1, what='return 0')
    # generic consumption rule: whoever returns (a value derived from) thread::error_number must clear it on that path
    n = 0
    consuming = {'photon::thread::set_error_number'}

    def derived(f, sub):
        ids = f.subtree(sub)
        if any((f.x(i) or {}).get('k') == 'member' and f.x(i).get('field') == ERRN for i in ids):
            return True
        f.aliases()
        for i in ids:
            e = f.x(i)
            if e is not None and e['k'] == 'ref' and f.decls[e['decl']]['kind'] == 'local':
                init = f.inits.get(e['decl'])
                if init is not None and init >= 0 and any((f.x(j) or {}).get('k') == 'member' and f.x(j).get('field') == ERRN for j in f.subtree(init)):
                    return True
        return False
    for f in prog.in_file('thread/thread.cpp') + prog.in_file('thread/thread.h'):
        if f.kind == 'lambda' or f.nname == 'photon::thread::set_error_number':
            continue
        rets = [e for e in f.exprs if e['k'] == 'return' and e.get('sub', -1) >= 0 and derived(f, e['sub'])]
        if not rets:
            continue
        G = K.build_f(R, prog, f)
        sw = lambda ev: ev.kind == 'call' and ev.callee() in ('photon::switch_context', 'photon::switch_context_defer')
        res = an.run(G, [an.SeenTracker([('switched', sw, ('cleared',)), ('cleared', clr)])])
        before = len([i for i in R.instances if i.status == 'violated'])
        n += K.check_at(R, P + '.K13', G, res,
                        lambda ev: ev.kind == 'return' and ev.depth == 0 and derived(ev.f, ev.e['sub']),
                        require=lambda st, ev: 'S:cleared' in st,
                        key_fn=lambda ev, f=f: '%s.K13:%s:returned-reason-is-cleared' % (P, f.nname),
                        describe=lambda ev: 'a wake-up reason handed to the caller is cleared (else the next sleep delivers it again)', min_sites=1, what='return error_number')
        if len([i for i in R.instances if i.status == 'violated']) == before:
            consuming.add(f.nname)
    if n < 1:
        R.broken.append('C04.K13: no function returns thread::error_number any more (anchor vanished)')
    # the yield functions hand the reason to their caller through a consuming read
    for fn in ('photon::thread_yield', 'photon::thread_yield_to'):
        G = K.build(R, prog, fn)
        sw = lambda ev: ev.kind == 'call' and ev.callee() == 'photon::switch_context'
        res = an.run(G, [an.SeenTracker([('switched', sw)])])
        for nid, idx, ev, states in res.at(lambda ev: ev.kind == 'return' and ev.depth == 0):
            if not any('S:switched' in st for st in states):
                continue
            se = ev.f.x(ev.f.skip(ev.e['sub']))
            key = '%s.K13:%s:reason-consumed' % (P, fn)
            if se is not None and se['k'] == 'call' and strip_targs(se.get('fn') or '') in consuming:
                R.held(P + '.K13', key, G.root.id, ev.loc(), 'returns %s (a consuming read of error_number)' % ev.show(ev.e['sub'])[:60])
            elif derived(ev.f, ev.e['sub']):
                pass    # judged by the generic rule above
            else:
                R.violated(P + '.K13', key, G.root.id, ev.loc(), 'after the switch returns %s, which does not consume the wake-up reason' % ev.show(ev.e['sub'])[:60])
    # yield clears before switching
    for fn in ('photon::thread_yield', 'photon::thread_yield_to'):
        G = K.build(R, prog, fn)
        sw = lambda ev: ev.kind == 'call' and ev.callee() == 'photon::switch_context'
        res = an.run(G, [an.SeenTracker([('cleared', clr)])])
        K.check_at(R, P + '.K8', G, res, sw, require=lambda st, ev: 'S:cleared' in st,
                   key_fn=lambda ev, fn=fn: '%s.K8:%s:clear-before-switch' % (P, fn),
                   describe=lambda ev: 'error_number = 0 precedes the switch (a stale reason is not reported)', min_sites=1, what='switch_context')


def interrupt(R, prog):
    G = K.build(R, prog, 'photon::prelocked_thread_interrupt')
    f = G.root
    th = f.decls[f.j['params'][0]]['name']
    seen = an.SeenTracker([('standby', lambda ev: ev.kind == 'call' and (ev.callee() or '').endswith('move_to_standbyq_atomic')),
                           ('runq', lambda ev: ev.kind == 'call' and ev.callee() == 'photon::AtomicRunQ::insert_tail'),
                           ('reason', lambda ev: wr_field(ev, ERRN)),
                           ('dequeued', lambda ev: ev.kind == 'call' and ev.callee() == 'photon::thread::dequeue_ready_atomic')])
    res = an.run(G, [seen, an.GuardTracker(lambda k: True)])
    own = re.compile(r'^G:(\w+) == (\w+)\.current->get_vcpu\(\)=T$')
    K.check_at(R, P + '.K6', G, res, lambda ev: ev.kind == 'call' and ev.callee() == 'photon::SleepQueue::pop',
               require=lambda st, ev: any(own.match(x) for x in st) and any(re.match(r'^G:\w+\.current=T$', x) for x in st),
               key_fn=lambda ev: P + '.K6:photon::prelocked_thread_interrupt:heap-pop-only-on-owner-vcpu',
               describe=lambda ev: 'sleepq.pop only when the target vCPU is the current vCPU', min_sites=1, what='sleepq.pop')
    K.check_at(R, P + '.K6', G, res, lambda ev: ev.kind == 'call' and ev.callee() == 'photon::AtomicRunQ::insert_tail',
               require=lambda st, ev: any(own.match(x) for x in st) and 'S:dequeued' in st,
               key_fn=lambda ev: P + '.K6:photon::prelocked_thread_interrupt:runq-insert-only-on-owner-vcpu',
               describe=lambda ev: 'run-queue insertion only on the owner vCPU, after the dequeue', min_sites=1, what='insert_tail')
    K.check_at(R, P + '.K7', G, res, lambda ev: ev.kind == 'exit',
               require=lambda st, ev: 'S:dequeued' in st and (('S:standby' in st) != ('S:runq' in st)),    # where the reason is stored is K8's business (callee or every caller)
               key_fn=lambda ev: P + '.K7:photon::prelocked_thread_interrupt:exactly-one-route',
               describe=lambda ev: 'every path dequeues and takes exactly one of {standby queue, run queue}', min_sites=1, what='exit')
    K.check_at(R, P + '.K6', G, res, lambda ev: ev.kind == 'call' and ev.callee() == 'photon::thread::dequeue_ready_atomic',
               require=lambda st, ev: (((ev.f.x(ev.f.skip(ev.e['args'][0])) or {}).get('name', '').endswith('STANDBY')) == (not any(own.match(x) for x in st))) if ev.e.get('args') else True,
               key_fn=lambda ev: P + '.K6:photon::prelocked_thread_interrupt:standby-state-iff-remote',
               describe=lambda ev: 'STANDBY state is assigned exactly on the cross-vCPU path', min_sites=2, what='dequeue_ready_atomic')
    # cross-vCPU enqueue cancels the engine wait
    fs = prog.find('photon::vcpu_t::move_to_standbyq_atomic', all=True)
    for f in K._dedupe(fs):
        G = K.build_f(R, prog, f)
        res = an.run(G, [an.SeenTracker([('enq', lambda ev: ev.kind == 'call' and (ev.callee() or '').endswith('_move_to_standbyq_atomic')),
                                         ('cancel', lambda ev: ev.kind == 'call' and (ev.callee() or '').endswith('::cancel_wait'))])])
        K.check_at(R, P + '.K8', G, res, lambda ev: ev.kind == 'exit',
                   require=lambda st, ev: 'S:enq' in st and 'S:cancel' in st,
                   key_fn=lambda ev, f=f: '%s.K8:photon::vcpu_t::move_to_standbyq_atomic<%s>:cancel_wait' % (P, f.sig),
                   describe=lambda ev: 'enqueue then cancel_wait() of the target engine on every path', min_sites=1, what='exit')
        K.check_at(R, P + '.K8', G, res, lambda ev: ev.kind == 'call' and (ev.callee() or '').endswith('::cancel_wait'),
                   require=lambda st, ev: 'S:enq' in st,
                   key_fn=lambda ev, f=f: '%s.K8:photon::vcpu_t::move_to_standbyq_atomic<%s>:order' % (P, f.sig),
                   describe=lambda ev: 'cancel_wait after the enqueue', min_sites=1, what='cancel_wait')
    # unlocked interrupt path
    G = K.build(R, prog, 'photon::thread_interrupt')
    f = G.root
    res = an.run(G, [an.LockTracker(), an.GuardTracker(lambda k: True)])
    th = K.param(f, 0)
    snap = K.locals_defined_only_by(f, r'^%s->state$' % re.escape(th)) | {th + '->state'}
    K.check_at(R, P + '.K6', G, res, lambda ev: wr_field(ev, ERRN),
               require=lambda st, ev: (('L:%s->lock' % th) in st and any(re.match(r'^G:%s == [1-9]\d*=T$' % re.escape(n), x) for n in snap for x in st)) or any(re.match(r'^G:\w+ == 0=T$', x) or re.match(r'^G:\w+=F$', x) or re.match(r'^G:\w+->error_number=F$', x) for x in st if 'error_number' in x)
               and any(('G:%s == 0=T' % n) in st or ('G:%s=F' % n) in st for n in snap),
               key_fn=lambda ev: P + '.K6:photon::thread_interrupt:mark-only-ready-unmarked',
               describe=lambda ev: 'without the thread lock a reason is stored only for a READY thread with no pending reason', min_sites=1, what='error_number write')
    # timed-out sleepers
    G = K.build(R, prog, 'photon::resume_threads_inlined')
    res = an.run(G, [an.LockTracker(), an.GuardTracker(lambda k: True)])
    K.check_at(R, P + '.K2', G, res, lambda ev: ev.kind == 'call' and ev.callee() == 'photon::SleepQueue::pop_front',
               require=lambda st, ev: any(x.endswith('->lock') for x in an.held(st)),
               key_fn=lambda ev: P + '.K2:photon::resume_threads_inlined:pop_front-under-thread-lock',
               describe=lambda ev: 'expired sleeper popped with its thread lock held', min_sites=1, what='pop_front')
    K.check_at(R, P + '.K6', G, res, lambda ev: ev.kind == 'call' and ev.callee() == 'photon::thread::dequeue_ready_atomic',
               require=lambda st, ev: any(re.match(r'^G:\w+->state == 2=T$', x) for x in st),
               key_fn=lambda ev: P + '.K6:photon::resume_threads_inlined:dequeue-only-if-still-sleeping',
               describe=lambda ev: 'expired sleeper made READY only if still SLEEPING under its lock (not concurrently interrupted)', min_sites=1, what='dequeue_ready_atomic')


def shutdown(R, prog):
    entries = [('photon::thread_usleep', 'photon::Timeout)', 'thread_usleep(Timeout)'),
               ('photon::thread_usleep_defer', 'photon::Timeout, photon::defer_func', 'thread_usleep_defer(Timeout,defer,arg)'),
               ('photon::thread_usleep', 'thread_list', 'thread_usleep(Timeout,waitq)'),
               ('photon::thread_usleep_defer', 'thread_list', 'thread_usleep_defer(Timeout,waitq,defer,arg)')]
    for fn, sig, label in entries:
        cands = [f for f in prog.find(fn, all=True) if sig in f.sig and (('thread_list' in f.sig) == ('thread_list' in sig))]
        R.require(len(cands) >= 1, 'C04: entry point %s not found' % label)
        f = cands[0]
        G = K.build_f(R, prog, f)
        res = an.run(G, [an.GuardTracker(lambda k: True)])
        blocking = lambda ev: ev.kind == 'call' and ev.callee() in ('photon::do_thread_usleep', 'photon::do_thread_usleep_defer', 'photon::prepare_usleep')
        K.check_at(R, P + '.K10', G, res, blocking,
                   require=lambda st, ev: any(re.match(r'^G:.*is_shutting_down\(\)=F$', x) for x in st),
                   key_fn=lambda ev, label=label: '%s.K10:%s:shutdown-routed' % (P, label),
                   describe=lambda ev: 'the unbounded sleep is reached only after is_shutting_down() was tested false', min_sites=1, what='blocking call')
    for fn, inner in (('photon::do_shutdown_usleep', 'photon::do_thread_usleep'), ('photon::do_shutdown_usleep_defer', 'photon::do_thread_usleep_defer')):
        G = K.build(R, prog, fn)
        f = G.root
        # the cap is a fact about the Timeout OBJECT it was applied to: the object handed to the sleep must be that one
        # (seed C04-4 capped a copy and slept on the original; capping a copy and sleeping on the copy is fine)
        is_cap = lambda ev: ev.kind == 'call' and ev.callee() == 'photon::Timeout::timeout_at_most' and 'recv' in ev.e and (ev.f.const(ev.e['args'][0]) or 10**9) <= 10000
        objs = sorted({ev.path(ev.e['recv']) for nid, idx, ev in G.events() if is_cap(ev) and ev.path(ev.e['recv'])})
        res = an.run(G, [an.SeenTracker([('capped:' + X, lambda ev, X=X: is_cap(ev) and ev.path(ev.e['recv']) == X) for X in objs] +
                                        [('recopied:' + X, lambda ev, X=X: ev.kind == 'binop' and ev.e['op'] == '=' and ev.path(ev.e['l']) == X, ('capped:' + X,)) for X in objs]),
                         an.GuardTracker(lambda k: True)])
        K.check_at(R, P + '.K8', G, res, lambda ev, inner=inner: ev.kind == 'call' and ev.callee() == inner,
                   require=lambda st, ev: ('S:capped:%s' % ev.arg_path(0)) in st,
                   key_fn=lambda ev, fn=fn: '%s.K8:%s:cap-before-sleep' % (P, fn),
                   describe=lambda ev: 'the Timeout object passed to the sleep is one that was capped to <= 10 ms on this path', min_sites=1, what='sleep')
        K.check_at(R, P + '.K6', G, res, lambda ev: ev.kind == 'return' and ev.depth == 0,
                   require=lambda st, ev: ev.f.const(ev.e['sub']) == -1,
                   key_fn=lambda ev, fn=fn: '%s.K6:%s:always-fails' % (P, fn),
                   describe=lambda ev: 'a shutting-down thread\'s sleep always reports failure', min_sites=1, what='return')


def shutdown_order(R, prog):
    """K8: thread_shutdown() marks the thread BEFORE it wakes it: a thread woken first sees itself unmarked, goes back to an
    unbounded sleep, and nothing wakes it again (the 10 ms bound of a marked thread is lost)."""
    G = K.build(R, prog, 'photon::thread_shutdown')
    mark = lambda ev: ev.kind == 'call' and (ev.callee() or '').endswith('::set_shutting_down')
    wake = lambda ev: ev.kind == 'call' and (ev.callee() or '').split('::')[-1] in ('thread_interrupt', 'prelocked_thread_interrupt')
    res = an.run(G, [an.SeenTracker([('marked', mark)])])
    th = K.param(G.root, 0)
    K.check_at(R, P + '.K8', G, res, wake, require=lambda st, ev: 'S:marked' in st and ev.arg_path(0) == th,
               key_fn=lambda ev: P + '.K8:photon::thread_shutdown:mark-before-wake',
               describe=lambda ev: 'the thread is interrupted (EPERM) only after its shutting-down mark was set', min_sites=1, what='thread_interrupt')
    K.check_at(R, P + '.K7', G, res, lambda ev: ev.kind == 'return' and ev.depth == 0 and ev.f.const(ev.e['sub']) == 0, require=lambda st, ev: 'S:marked' in st,
               key_fn=lambda ev: P + '.K7:photon::thread_shutdown:success-has-marked', describe=lambda ev: 'success only after the mark was set', min_sites=1)


def run(R, prog, tier):
    R.guard(C.interrupt_retest_under_lock, R, prog, P)
    R.guard(shutdown_order, R, prog)
    R.guard(C.wake_reason_before_publish, R, prog, P)
    R.guard(sleepq, R, prog)
    R.guard(consumption, R, prog)
    R.guard(interrupt, R, prog)
    R.guard(shutdown, R, prog)
