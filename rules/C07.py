"""C07 — Lock-free ring queues and RingChannel (DESIGN.md §5 C07)."""
import re
from sa.facts import AnalysisBroken, strip_targs
from sa import analysis as an
from sa import rules as K
from rules import common as C

UNITS = ['witness/lockfree.cpp']
UNITS_THOROUGH = ['thread/workerpool.cpp', 'common/executor/executor.cpp', 'fs/exportfs.cpp', 'common/alog.cpp']
FLOOR = 80
P = 'C07'
CLAIM = ('Decides for common/lockfree_queue.h (witness instantiations of the MPMC, batch-MPMC and SPSC queues, RingChannel over MPMC and SPSC, '
         'FlexRingChannel; thorough: every instantiation in workerpool/executor/exportfs/alog): (1) publication discipline: in every producer '
         'the slot write precedes the publishing store/CAS which carries release order, in every consumer the slot read follows an acquire of '
         'that publication and precedes the releasing store that frees the slot; (2) the channel sleep/wake hand-shake has its seq_cst '
         'pieces: a seq_cst fence between push and the idler load in send, a seq_cst idler increment followed by a re-examination of the queue '
         'before every sleep in recv, and the same for blocked senders (send_waiters / notify_senders); (3) wake-up token bookkeeping: a '
         'semaphore is signalled only after winning the pending CAS, pending is decremented only when a token was consumed, registrations are '
         'undone on every exit; (4) RingChannel and FlexRingChannel implement the same protocol (the rules run on both).')


def atom(ev):
    return K.atomic_op(ev) or (None, '', [])


def on(ev, field, ops):
    a = atom(ev)
    return a[1] in ops and (a[0] or '').split('.')[-1].split('>')[-1] == field


def idler_snapshots(f):
    """locals that only ever hold a value read from the idler counter (directly or through another such local)"""
    ld = r'(this->)?idler\.load\(.*\)'
    a = K.locals_defined_only_by(f, '^%s$' % ld)
    return a | K.locals_defined_only_by(f, '^(%s|%s)$' % (ld, '|'.join(re.escape(x) for x in sorted(a)) or '@'))


def insts(prog, name):
    fs = prog.find(name, all=True, required=False)
    seen, out = set(), []
    for f in fs:
        if f.id in seen:
            continue
        seen.add(f.id)
        out.append(f)
    return out


def label(f):
    m = re.search(r'(\w+<.*>)::\w+(<.*>)?$', f.name)
    return f.name


def k1(R, prog):
    T = [
        ('LockfreeMPMCRingQueue::push', 'mark', 'load', 'acquire'), ('LockfreeMPMCRingQueue::push', 'mark', 'store', 'release'),
        ('LockfreeMPMCRingQueue::pop', 'mark', 'load', 'acquire'), ('LockfreeMPMCRingQueue::pop', 'mark', 'store', 'release'),
        ('LockfreeMPMCRingQueue::send', 'mark', 'load', 'acquire'), ('LockfreeMPMCRingQueue::send', 'mark', 'store', 'release'),
        ('LockfreeMPMCRingQueue::recv', 'mark', 'load', 'acquire'), ('LockfreeMPMCRingQueue::recv', 'mark', 'store', 'release'),
        ('LockfreeBatchMPMCRingQueue::push_batch', 'head', 'load', 'acquire'), ('LockfreeBatchMPMCRingQueue::push_batch', 'write_head', 'compare_exchange_strong', 'release'),
        ('LockfreeBatchMPMCRingQueue::pop_batch', 'write_head', 'load', 'acquire'), ('LockfreeBatchMPMCRingQueue::pop_batch', 'head', 'compare_exchange_strong', 'release'),
        ('LockfreeSPSCRingQueue::push', 'head', 'load', 'acquire'), ('LockfreeSPSCRingQueue::push', 'tail', 'store', 'release'),
        ('LockfreeSPSCRingQueue::pop', 'tail', 'load', 'acquire'), ('LockfreeSPSCRingQueue::pop', 'head', 'store', 'release'),
        ('LockfreeSPSCRingQueue::produce_push_batch', 'head', 'load', 'acquire'), ('LockfreeSPSCRingQueue::produce_push_batch', 'tail', 'store', 'release'),
        ('LockfreeSPSCRingQueue::produce_push_batch_fully', 'head', 'load', 'acquire'), ('LockfreeSPSCRingQueue::produce_push_batch_fully', 'tail', 'store', 'release'),
        ('LockfreeSPSCRingQueue::consume_pop_batch', 'tail', 'load', 'acquire'), ('LockfreeSPSCRingQueue::consume_pop_batch', 'head', 'store', 'release'),
    ]
    for fn, obj, op, need in T:
        R.guard(K.k1_atomic_order, R, prog, P + '.K1', fn, obj, op, need)


def publication(R, prog):
    # (function, slot access predicate name, publishing op, field)
    def is_slot(ev, i):
        p = ev.path(i)
        sh = p if p is not None else ev.show(i)
        return 'slots[' in sh

    def slot_write(ev):
        if ev.kind == 'binop' and ev.e['op'] == '=':
            return is_slot(ev, ev.e['l'])
        if ev.kind == 'call' and ev.e.get('ctype') == 'operator' and ev.e.get('op') == '=' and 'recv' in ev.e:
            return is_slot(ev, ev.e['recv'])
        if ev.kind == 'call' and ev.callee() == 'memcpy':
            return 'slots[' in (ev.arg_show(0) or '')
        if ev.kind == 'call' and ev.e.get('op') == '()' and 'slots[' in ev.show():
            return True       # produce(&slots[...], ...)
        return False

    def slot_read(ev):
        if ev.kind == 'binop' and ev.e['op'] == '=':
            return is_slot(ev, ev.e['r'])
        if ev.kind == 'call' and ev.e.get('ctype') == 'operator' and ev.e.get('op') == '=' and ev.e.get('args'):
            return is_slot(ev, ev.e['args'][0])
        if ev.kind == 'declstmt':
            for v in ev.e['vars']:
                if v['init'] is not None and v['init'] >= 0 and not ev.f.decls[v['decl']].get('isref') and is_slot(ev, v['init']):
                    return True
            return False
        if ev.kind == 'call' and ev.callee() == 'memcpy':
            return 'slots[' in (ev.arg_show(1) or '')
        if ev.kind == 'call' and ev.e.get('op') == '()' and 'slots[' in ev.show():
            return True
        return False
    T = [('LockfreeMPMCRingQueue::push', 'w', 'mark', ('store',)), ('LockfreeMPMCRingQueue::send', 'w', 'mark', ('store',)),
         ('LockfreeMPMCRingQueue::pop', 'r', 'mark', ('store',)), ('LockfreeMPMCRingQueue::recv', 'r', 'mark', ('store',)),
         ('LockfreeBatchMPMCRingQueue::push_batch', 'w', 'write_head', ('compare_exchange_strong', 'compare_exchange_weak', 'store')),
         ('LockfreeBatchMPMCRingQueue::pop_batch', 'r', 'head', ('compare_exchange_strong', 'compare_exchange_weak', 'store')),
         ('LockfreeSPSCRingQueue::push', 'w', 'tail', ('store',)), ('LockfreeSPSCRingQueue::pop', 'r', 'head', ('store',)),
         ('LockfreeSPSCRingQueue::produce_push_batch', 'w', 'tail', ('store',)), ('LockfreeSPSCRingQueue::produce_push_batch_fully', 'w', 'tail', ('store',)),
         ('LockfreeSPSCRingQueue::consume_pop_batch', 'r', 'head', ('store',))]
    for fn, kind, field, ops in T:
        for f in insts(prog, fn):
            G = K.build_f(R, prog, f)
            acc = slot_write if kind == 'w' else slot_read
            pubop = lambda ev, field=field, ops=ops: on(ev, field, ops)
            res = an.run(G, [an.SeenTracker([('slot', acc), ('pub', pubop)])])
            K.check_at(R, P + '.K8', G, res, pubop, require=lambda st, ev: 'S:slot' in st,
                       key_fn=lambda ev, f=f, field=field: '%s.K8:%s:slot-%s-before-%s' % (P, f.nname, 'write' if kind == 'w' else 'read', field),
                       describe=lambda ev, kind=kind, field=field: 'slot %s precedes the %s of %s' % ('write' if kind == 'w' else 'read', 'publication' if kind == 'w' else 'release', field),
                       min_sites=1, what='publishing op on ' + field)
            n_acc = len([1 for _, _, ev in G.events() if acc(ev)])
            if n_acc == 0:
                R.broken.append('C07.K8: no slot %s recognised in %s' % ('write' if kind == 'w' else 'read', f.id))
            # an access after the publication would be outside the protected window
            res2 = an.run(G, [an.SeenTracker([('pub', pubop)])])
            K.check_at(R, P + '.K8', G, res2, acc, require=lambda st, ev: 'S:pub' not in st,
                       key_fn=lambda ev, f=f: '%s.K8:%s:no-slot-access-after-publication' % (P, f.nname),
                       describe=lambda ev: 'no slot access after the slot was published/freed', min_sites=1, what='slot access')


def channels(R, prog):
    for cls in ('photon::common::RingChannel', 'photon::common::FlexRingChannel'):
        sends = insts(prog, cls + '::send')
        recvs = [f for f in insts(prog, cls + '::recv') if 'uint64_t' in f.sig]
        if len(sends) < 2 or len(recvs) < 1:
            R.broken.append('C07: expected send<PhotonPause>/send<ThreadPause> and recv(turn,usec) instantiations of %s' % cls)
        for f in sends:
            G = K.build_f(R, prog, f)
            lab = f.name.replace('photon::common::', '')
            pushed = lambda ev: ev.kind == 'call' and (ev.callee() or '').endswith('::push_backoff')
            idl = lambda ev: on(ev, 'idler', ('load',))
            seen = an.SeenTracker([('pushed', pushed, ('fence',)), ('fence', lambda ev: K.is_fence(ev, 'seq_cst')), ('idler_read', idl)])
            res = an.run(G, [seen, an.GuardTracker(lambda k: True)])
            K.check_at(R, P + '.K1', G, res, idl,
                       require=lambda st, ev: 'S:idler_read' in st or ('S:pushed' in st and 'S:fence' in st and (atom(ev)[2] or ['?'])[0] == 'seq_cst'),
                       key_fn=lambda ev, lab=lab: '%s.K1:%s:dekker-fence-before-idler-load' % (P, lab),
                       describe=lambda ev: 'seq_cst fence between the push and the (seq_cst) first read of idler', min_sites=1, what='idler.load')
            sig = lambda ev: ev.kind == 'call' and ev.callee() == 'photon::semaphore::signal' and (ev.recv_path() or '').endswith('queue_sem')
            K.check_at(R, P + '.K6', G, res, sig,
                       require=lambda st, ev: any(re.match(r'^G:this->pending\.compare_exchange_\w+\(.*\)=T$', x) for x in st) and ev.f.const(ev.e['args'][0]) == 1,
                       key_fn=lambda ev, lab=lab: '%s.K6:%s:signal-after-winning-pending-cas' % (P, lab),
                       describe=lambda ev: 'queue_sem.signal(1) only after this producer won the pending CAS', min_sites=1, what='queue_sem.signal')
            K.check_at(R, P + '.K6', G, res, lambda ev: ev.kind == 'return' and ev.depth == 0 or ev.kind == 'exit',
                       require=lambda st, ev: 'S:pushed' in st,
                       key_fn=lambda ev, lab=lab: '%s.K6:%s:returns-after-push' % (P, lab), describe=lambda ev: 'send returns only after push_backoff', min_sites=2)
            # the early exits: nobody idle, or enough tokens in flight
            K.check_at(R, P + '.K7', G, res, lambda ev: ev.kind == 'return' and ev.depth == 0,
                       require=lambda st, ev, f=f: any(('G:%s=F' % n) in st for n in idler_snapshots(f)) or
                       any(('G:%s <= %s=T' % (a, b)) in st for a in idler_snapshots(f) for b in idler_snapshots(f)) or
                       any(re.match(r'^G:this->pending\.compare_exchange_\w+\(.*\)=T$', x) for x in st),
                       key_fn=lambda ev, lab=lab: '%s.K7:%s:no-silent-return' % (P, lab),
                       describe=lambda ev: 'send returns without signalling only if no consumer idles or enough wake-ups are in flight', min_sites=3, what='return')
        for f in recvs:
            G = K.build_f(R, prog, f)
            lab = f.name.replace('photon::common::', '') + '(turn,usec)'
            popq = lambda ev: ev.kind == 'call' and (ev.callee() or '').split('::')[-1] == 'pop' and ev.depth == 0
            inc = lambda ev: on(ev, 'idler', ('fetch_add', 'operator++'))
            dec = lambda ev: on(ev, 'idler', ('fetch_sub', 'operator--'))
            sleep = lambda ev: ev.kind == 'call' and (ev.callee() or '').startswith('photon::semaphore::wait') and (ev.recv_path() or '').endswith('queue_sem')
            seen = an.SeenTracker([('idle', inc, ('recheck',)), ('left', dec, ('idle',)), ('recheck', popq)])
            res = an.run(G, [seen, an.GuardTracker(lambda k: True)])
            K.check_at(R, P + '.K1', G, res, inc, require=lambda st, ev: (atom(ev)[2] or ['?'])[0] == 'seq_cst',
                       key_fn=lambda ev, lab=lab: '%s.K1:%s:idler-increment-seq_cst' % (P, lab),
                       describe=lambda ev: 'idler++ is a seq_cst RMW (other half of the Dekker hand-shake)', min_sites=1, what='idler.fetch_add')
            K.check_at(R, P + '.K7', G, res, sleep, require=lambda st, ev: 'S:idle' in st and 'S:recheck' in st,
                       key_fn=lambda ev, lab=lab: '%s.K7:%s:register-recheck-sleep' % (P, lab),
                       describe=lambda ev: 'consumer sleeps only after announcing itself idle AND re-examining the queue', min_sites=1, what='queue_sem.wait')
            K.check_at(R, P + '.K6', G, res, lambda ev: on(ev, 'pending', ('fetch_sub', 'operator--')),
                       require=lambda st, ev: any(re.match(r'^G:\w+=F$', x) for x in st if x[2:-2] in K.local_names_init_by(f, lambda e, i: e['k'] == 'call' and 'queue_sem' in f.show(i))),
                       key_fn=lambda ev, lab=lab: '%s.K6:%s:pending-dec-only-when-token-consumed' % (P, lab),
                       describe=lambda ev: 'pending-- only when queue_sem.wait returned 0 (a token was consumed)', min_sites=1, what='pending.fetch_sub')
            K.check_at(R, P + '.K4', G, res, lambda ev: ev.kind == 'exit', require=lambda st, ev: 'S:idle' not in st,
                       key_fn=lambda ev, lab=lab: '%s.K4:%s:idler-paired' % (P, lab), describe=lambda ev: 'idler-- on every exit that incremented it', min_sites=1, what='exit')
            K.check_at(R, P + '.K7', G, res, lambda ev: ev.kind == 'return' and ev.depth == 0,
                       require=lambda st, ev: any(re.match(r'^G:.*pop\(%s\)=T$' % re.escape(ev.show(ev.e['sub']) or '?'), x) for x in st),
                       key_fn=lambda ev, lab=lab: '%s.K7:%s:returns-popped-element' % (P, lab), describe=lambda ev: 'recv returns only after a successful pop', min_sites=2, what='return')
            ns = lambda ev: ev.kind == 'call' and (ev.callee() or '').endswith('::notify_senders')
            res3 = an.run(G, [an.SeenTracker([('notified', ns)])])
            K.check_at(R, P + '.K7', G, res3, lambda ev: ev.kind == 'return' and ev.depth == 0, require=lambda st, ev: 'S:notified' in st,
                       key_fn=lambda ev, lab=lab: '%s.K7:%s:notify-blocked-senders' % (P, lab), describe=lambda ev: 'a successful pop notifies blocked senders before returning', min_sites=2, what='return')
    # sender-side backoff
    for f in insts(prog, 'photon::common::SendBackoff::notify_senders'):
        G = K.build_f(R, prog, f)
        p_sem, p_waiters, p_pending = K.param(f, 0), K.param(f, 1), K.param(f, 2)      # (send_sem, send_waiters, send_pending)
        lw = lambda ev: on(ev, p_waiters, ('load',))
        res = an.run(G, [an.SeenTracker([('fence', lambda ev: K.is_fence(ev, 'seq_cst')), ('read', lw)]), an.GuardTracker(lambda k: True)])
        K.check_at(R, P + '.K1', G, res, lw, require=lambda st, ev: 'S:read' in st or ('S:fence' in st and (atom(ev)[2] or ['?'])[0] == 'seq_cst'),
                   key_fn=lambda ev: P + '.K1:SendBackoff::notify_senders:dekker-fence-before-waiters-load',
                   describe=lambda ev: 'seq_cst fence before the first (seq_cst) read of send_waiters', min_sites=1, what='send_waiters.load')
        K.check_at(R, P + '.K6', G, res, lambda ev: ev.kind == 'call' and ev.callee() == 'photon::semaphore::signal',
                   require=lambda st, ev: ev.recv_path() == p_sem and any(re.match(r'^G:%s\.compare_exchange_\w+\(.*\)=T$' % re.escape(p_pending), x) for x in st),
                   key_fn=lambda ev: P + '.K6:SendBackoff::notify_senders:signal-after-winning-cas',
                   describe=lambda ev: 'send_sem.signal only after winning the send_pending CAS', min_sites=1, what='signal')
    n = 0
    for f in insts(prog, 'photon::common::SendBackoff::push_backoff'):
        if 'PhotonPause' not in f.name:
            continue
        n += 1
        G = K.build_f(R, prog, f)
        pf = f.decls[f.j['params'][1]]['name']
        px, p_waiters, p_pending = K.param(f, 0), K.param(f, 5), K.param(f, 6)   # (x, push_fn, turn, usec, send_sem, send_waiters, send_pending)
        reg = lambda ev: on(ev, p_waiters, ('fetch_add', 'operator++'))
        dereg = lambda ev: on(ev, p_waiters, ('fetch_sub', 'operator--'))
        retry = lambda ev, pf=pf: ev.kind == 'call' and ev.e.get('op') == '()' and ev.recv_path() == pf
        sleep = lambda ev: ev.kind == 'call' and (ev.callee() or '').startswith('photon::semaphore::wait')
        res = an.run(G, [an.SeenTracker([('reg', reg, ('retry',)), ('dereg', dereg, ('reg',)), ('retry', retry)]), an.GuardTracker(lambda k: True)])
        lab = 'SendBackoff::push_backoff<PhotonPause>#%d' % n
        K.check_at(R, P + '.K1', G, res, reg, require=lambda st, ev: (atom(ev)[2] or ['?'])[0] == 'seq_cst',
                   key_fn=lambda ev, lab=lab: '%s.K1:%s:waiters-increment-seq_cst' % (P, lab), describe=lambda ev: 'send_waiters++ is seq_cst', min_sites=1)
        K.check_at(R, P + '.K7', G, res, sleep, require=lambda st, ev: 'S:reg' in st and 'S:retry' in st,
                   key_fn=lambda ev, lab=lab: '%s.K7:%s:register-retry-sleep' % (P, lab),
                   describe=lambda ev: 'a blocked sender sleeps only after registering AND retrying the push', min_sites=1, what='send_sem.wait')
        K.check_at(R, P + '.K4', G, res, lambda ev: ev.kind == 'exit', require=lambda st, ev: 'S:reg' not in st,
                   key_fn=lambda ev, lab=lab: '%s.K4:%s:waiters-paired' % (P, lab), describe=lambda ev: 'send_waiters-- on every exit', min_sites=1)
        K.check_at(R, P + '.K6', G, res, lambda ev: on(ev, p_pending, ('fetch_sub', 'operator--')),
                   require=lambda st, ev: any(re.match(r'^G:r=F$', x) or re.match(r'^G:\w+=F$', x) for x in st),
                   key_fn=lambda ev, lab=lab: '%s.K6:%s:pending-dec-only-when-token-consumed' % (P, lab), describe=lambda ev: 'send_pending-- only when a token was consumed', min_sites=1)
        K.check_at(R, P + '.K7', G, res, lambda ev: ev.kind == 'exit',
                   require=lambda st, ev: ('G:%s(%s)=T' % (pf, px)) in st,
                   key_fn=lambda ev, lab=lab: '%s.K7:%s:returns-after-successful-push' % (P, lab), describe=lambda ev: 'push_backoff returns only after push_fn succeeded', min_sites=1)
    if n < 1:
        R.broken.append('C07: no push_backoff<PhotonPause> instantiation found')


def turns(R, prog):
    """K6: the per-slot turn hand-shake of the MPMC ring.  A producer publishes this_turn_write(ticket) only after it saw the mark EQUAL to
    last_turn_read(ticket); a consumer publishes this_turn_read(ticket) only after it saw the mark EQUAL to this_turn_write(ticket).
    Leaving the wait on anything weaker than that equality (e.g. `mark != some other value`) lets a thread that is a lap ahead through."""
    n = 0
    for nm, awaited, published in (('push', 'last_turn_read', 'this_turn_write'), ('send', 'last_turn_read', 'this_turn_write'),
                                   ('pop', 'this_turn_write', 'this_turn_read'), ('recv', 'this_turn_write', 'this_turn_read')):
        for f in insts(prog, 'LockfreeMPMCRingQueue::' + nm):
            if '::lambda' in f.name:
                continue
            G = K.build_f(R, prog, f)
            res = an.run(G, [an.GuardTracker(lambda k: 'mark' in k)])
            pub = lambda ev: (K.atomic_op(ev) or (None, None))[1] in ('store', 'operator=', 'exchange') and (K.atomic_op(ev)[0] or '').endswith('mark')

            def handshake(st, ev, awaited=awaited, published=published):
                m = re.match(r'^(?:this->)?%s\((.+)\)$' % published, ev.arg_show(0) or '')
                if not m:
                    return False
                ticket = m.group(1)
                mk = K.atomic_op(ev)[0]
                return any(k.startswith('G:%s.load(' % mk) and re.search(r'\) == (?:this->)?%s\(%s\)=T$' % (awaited, re.escape(ticket)), k) for k in st)
            k = K.check_at(R, P + '.K6', G, res, pub, handshake,
                           key_fn=lambda ev, f=f, nm=nm: '%s.K6:%s:turn-handshake-by-equality' % (P, label(f)),
                           describe=lambda ev, awaited=awaited, published=published: 'mark := %s(ticket) only after mark == %s(same ticket) was observed' % (published, awaited),
                           min_sites=1, what='mark.store')
            n += 1
    if n < 4:
        R.broken.append('C07.K6: expected the four MPMC operations (push/pop/send/recv), analysed %d' % n)


def run(R, prog, tier):
    R.guard(C.flexqueue_geometry, R, prog, P)
    k1(R, prog)
    R.guard(turns, R, prog)
    R.guard(publication, R, prog)
    R.guard(channels, R, prog)
