"""Rules shared by several properties (thread.cpp contracts)."""
import re
from sa.facts import AnalysisBroken, strip_targs
from sa import analysis as an
from sa import rules as K

YIELD_SEEDS = {'photon::switch_context', 'photon::switch_context_defer'}


def thread_lock_contracts(R, prog, P):
    """K2: prelocked_thread_interrupt(th, ..) and th->dequeue_ready_atomic() only with th->lock held."""
    rule = P + '.K2'
    n = 0
    for f in K.callers_of(prog, 'photon::prelocked_thread_interrupt'):
        G = K.build_f(R, prog, f)
        res = an.run(G, [an.LockTracker()])
        n += K.k2_requires_lock(R, rule, G, res, 'photon::prelocked_thread_interrupt',
                                lock_of=lambda ev: (ev.arg_path(0) + '->lock') if ev.arg_path(0) else None, min_sites=1)
    if n < 5:
        raise AnalysisBroken('%s: expected >= 5 call sites of prelocked_thread_interrupt, found %d' % (rule, n))
    n = 0
    for f in K.callers_of(prog, 'photon::thread::dequeue_ready_atomic'):
        G = K.build_f(R, prog, f)
        init = frozenset()
        if f.nname == 'photon::prelocked_thread_interrupt':
            # the callee's own contract (verified at every call site above)
            p0 = f.decls[f.j['params'][0]]['name']
            init = frozenset(['L:%s->lock' % p0])
            R.exception(rule, 'prelocked_thread_interrupt body', 'analysed under its contract: caller holds %s->lock' % p0)
        res = an.run(G, [an.LockTracker()], init=init)
        n += K.k2_requires_lock(R, rule, G, res, 'photon::thread::dequeue_ready_atomic',
                                lock_of=lambda ev: (ev.recv_path() + '->lock') if ev.recv_path() else None, min_sites=1)
    if n < 3:
        raise AnalysisBroken('%s: expected >= 3 call sites of dequeue_ready_atomic, found %d' % (rule, n))


def _spin_like(lt, lp):
    t = lt.types.get(lp.split('#')[0], lt.types.get(lp, '?')) or '?'
    if 'spinlock' in t or 'spinLock' in t or 'AtomicRunQ' in t or 'ScopedLockHead' in t:
        return True
    if lp.startswith('RUNQ'):
        return True
    if lp.endswith('->lock') or lp.endswith('.lock'):
        return t == '?'      # thread::lock taken through ScopedLockHead / indirect forms
    return False


def no_yield_under_spinlock(R, prog, P, files, min_sites=5, exempt=None, include_inline_members=False):
    """K5: no call into the may-yield set while a spinlock-like lock is held, except the
    hand-off forms that release that very lock during the call."""
    rule = P + '.K5'
    exempt = exempt or {}
    my = K.may_reach(prog, YIELD_SEEDS)
    funcs = [f for f in prog.funcs.values() if f.file.endswith(tuple(files)) and f.kind != 'lambda']
    n = 0
    for f in sorted(funcs, key=lambda f: (f.file, f.line)):
        if not any(e['k'] in ('call', 'construct') and (e.get('fn') or '') in my for e in f.exprs) and \
           not any(e['k'] == 'lambda' for e in f.exprs):
            continue
        if f.nname in exempt:
            R.exception(rule, f.nname, exempt[f.nname])
            continue
        G = K.build_f(R, prog, f)
        lt = an.LockTracker()
        res = an.run(G, [lt])
        for nid, idx, ev, states in res.at(lambda ev: ev.kind in ('call', 'construct') and (ev.e.get('fn') or '') in my):
            n += 1
            callee = ev.callee()
            argpaths = set()
            for a in ev.e.get('args', []):
                p = ev.path(a)
                if p:
                    argpaths.add(p[1:] if p.startswith('&') else p)
                    argpaths.add(p)
            key = '%s:%s:call(%s)' % (rule, f.nname, callee.split('::')[-1])
            bad = None
            for st in states:
                after = lt.transfer(ev, st)
                heldl = [x for x in an.held(after) if _spin_like(lt, x) and x.split('#')[0] not in argpaths]
                if heldl:
                    bad = heldl
                    break
            if bad:
                R.violated(rule, key, f.id, ev.loc(), 'call of %s (may yield) while holding spinlock(s) %s' % (callee, bad))
            else:
                R.held(rule, key, f.id, ev.loc(), 'may-yield call %s with no spinlock held' % callee, nontrivial=bool(states))
    if n < min_sites:
        raise AnalysisBroken('%s: expected >= %d may-yield call sites, found %d' % (rule, min_sites, n))


ERRN = 'photon::thread::error_number'


def reason_not_overwritten(R, prog, P):
    """K6: thread_interrupt() without the thread lock stores a reason only for a READY thread that has none pending
    (the wake-up reason -1 of a mutex/semaphore hand-off is the only way the woken thread learns it owns the token)."""
    G = K.build(R, prog, 'photon::thread_interrupt')
    res = an.run(G, [an.LockTracker(), an.GuardTracker(lambda k: True)])
    wr = lambda ev: (K.written_member(ev) or ('',))[0] == ERRN
    th = K.param(G.root, 0)
    snap = K.locals_defined_only_by(G.root, r'^%s->state$' % re.escape(th)) | {th + '->state'}    # the state, or a local snapshot of it
    K.check_at(R, P + '.K6', G, res, wr,
               require=lambda st, ev: (('L:%s->lock' % th) in st and any(re.match(r'^G:%s == [1-9]\d*=T$' % re.escape(n), x) for n in snap for x in st)) or any(re.match(r'^G:\w+ == 0=T$', x) or re.match(r'^G:\w+=F$', x) or re.match(r'^G:\w+->error_number=F$', x) for x in st if 'error_number' in x)
               and any(('G:%s == 0=T' % n) in st or ('G:%s=F' % n) in st for n in snap),    # a store made with th->lock held for a thread positively seen in a non-READY state (the SLEEPING wake path) is governed by retest-under-lock and K8
               key_fn=lambda ev: P + '.K6:photon::thread_interrupt:mark-only-ready-unmarked',
               describe=lambda ev: 'without the thread lock a reason is stored only for a READY thread with no pending reason', min_sites=1, what='error_number write')


def interrupt_retest_under_lock(R, prog, P):
    """K6: thread_interrupt() hands a thread to prelocked_thread_interrupt() only after it saw th->state == SLEEPING *while holding
    th->lock*: what was read (directly, or into a local snapshot) before the lock was taken is stale once the lock is held."""
    G = K.build(R, prog, 'photon::thread_interrupt')
    f = G.root
    th = K.param(f, 0)
    snap = K.locals_defined_only_by(f, r'^%s->state$' % re.escape(th))
    lt = an.LockTracker()
    acquires = lambda ev: any(op == '+' and fact == 'L:%s->lock' % th for op, fact in lt.effects(ev))
    gt = an.GuardTracker(lambda k: True, lock_tracker=lt, kill=lambda ev, key: acquires(ev) and any(re.search(r'(?<![\w.>])%s(?!\w)' % re.escape(n), key) for n in snap))
    def snapdef(ev):
        if ev.kind == 'binop' and ev.e['op'] == '=' and ev.path(ev.e['l']) in snap:
            return True
        return ev.kind == 'declstmt' and any(ev.f.decls[v['decl']]['name'] in snap for v in ev.e['vars'])
    res = an.run(G, [lt, gt, an.SeenTracker([('stale', acquires), ('fresh', snapdef, ('stale',))])])
    SL = [e['cv'] for e in f.exprs if e['k'] == 'enumconst' and (e.get('name') or '').endswith('::SLEEPING') and 'cv' in e]
    sl = SL[0] if SL else 1
    K.check_at(R, P + '.K6', G, res, lambda ev: ev.kind == 'call' and ev.callee() == 'photon::prelocked_thread_interrupt',
               require=lambda st, ev: an.has_lock(st, th + '->lock') and (('G:%s->state == %d=T' % (th, sl)) in st or
                                                                           ('S:stale' not in st and any(('G:%s == %d=T' % (n, sl)) in st for n in snap))),
               key_fn=lambda ev: P + '.K6:photon::thread_interrupt:sleeping-retested-under-the-thread-lock',
               describe=lambda ev: 'the sleeper is interrupted only after its state was (re)read as SLEEPING with th->lock held', min_sites=1, what='prelocked_thread_interrupt')


def gather_extract(R, prog, P):
    """K6 (shared by C14 and C12): iovector::extract_{front,back}_continuous gather-copies `bytes` into a fresh buffer only
    if the vector really holds that many bytes and the buffer was allocated - otherwise a deserialized field would be
    longer than the received input."""
    for nm in ('front', 'back'):
        f = prog.find('iovector::extract_%s_continuous' % nm)
        G = K.build_f(R, prog, f)
        res = an.run(G, [an.GuardTracker(lambda k: True)])
        n = K.param(f, 0)
        K.check_at(R, P + '.K6', G, res, lambda ev, nm=nm: ev.kind == 'call' and (ev.callee() or '').endswith('iovector::extract_' + nm) and len(ev.e.get('args', [])) == 2,
                   require=lambda st, ev, n=n: ev.arg_path(0) == n and any(re.match(r'^G:\w+\.sum\(\) < %s=F$' % re.escape(n), k) for k in st) and
                   ev.arg_path(1) is not None and ('G:%s=T' % ev.arg_path(1)) in st,
                   key_fn=lambda ev, nm=nm: '%s.K6:iovector::extract_%s_continuous:copy-only-if-enough-and-allocated' % (P, nm),
                   describe=lambda ev: 'the gather copy runs only if the vector holds >= bytes and the buffer was allocated', min_sites=1, what='extract(bytes, buf)')


def flexqueue_geometry(R, prog, P):
    """K10: FlexQueue allocates (and zeroes) as many slots as the ring header indexes.  required_space(c) multiplies the slot size by
    the same capacity expression that LockfreeRingQueueBase(size_t c) stores in `capacity` (which also gives `mask`): if the two disagree,
    pushes reach slots outside the allocation."""
    ctors = [f for f in prog.funcs.values() if re.search(r'LockfreeRingQueueBase<.*>::LockfreeRingQueueBase$', f.name) and f.kind == 'ctor' and len(f.j['params']) == 1 and f.blocks]
    rs = [f for f in prog.funcs.values() if f.nname.endswith('FlexQueue::required_space') and f.blocks]
    if not ctors or not rs:
        R.broken.append('%s: FlexQueue::required_space / LockfreeRingQueueBase(size_t) not instantiated in the analysed unit' % P)
        return
    c, r = ctors[0], rs[0]
    cap_init = None
    for b in c.blocks.values():
        for ev in b['ev']:
            if ev['e'] == 'init' and ev.get('name') == 'capacity':
                cap_init = ev['x']
    if cap_init is None:
        R.broken.append('%s: LockfreeRingQueueBase(size_t) no longer initialises `capacity`' % P)
        return
    norm = lambda f, i: re.sub(r'(?<![\w.>])%s(?!\w)' % re.escape(K.param(f, 0)), '$c', f.show(i))
    want = norm(c, cap_init)
    # the slot count in required_space: the factor multiplied with sizeof(slot), through single-assignment locals
    got = None
    for i, e in enumerate(r.exprs):
        if e['k'] == 'binop' and e['op'] == '*' and e.get('cv') is None:
            for side in (e['l'], e['r']):
                x = r.x(r.skip(side))
                if x is not None and x['k'] == 'ref' and r.decls[x['decl']]['kind'] == 'local':
                    vi = r.value_init(x['decl'])
                    if vi is not None and vi >= 0:
                        got = norm(r, vi)
                elif x is not None and x['k'] not in ('lit', 'sizeof') and r.const(side) is None and got is None:
                    got = norm(r, side)
    key = '%s.K10:FlexQueue::required_space:allocates-the-capacity-the-ring-indexes' % P
    (R.held if got == want else R.violated)(P + '.K10', key, r.id, '%s:%d' % (r.file, r.line),
                                             'slot count allocated = %s ; capacity indexed by the ring = %s' % (got, want))


def expired_sleepers(R, prog, P):
    """K2/K6 (shared by C04 and C05): the expiry pass of resume_threads_inlined() pops a sleeper with its thread lock held and makes it
    READY only if it is still SLEEPING under that lock - a sleeper interrupted from another vCPU meanwhile is STANDBY and already
    linked in the standby queue; re-linking it into the run queue duplicates or loses threads."""
    G = K.build(R, prog, 'photon::resume_threads_inlined')
    res = an.run(G, [an.LockTracker(), an.GuardTracker(lambda k: True)])
    K.check_at(R, P + '.K2', G, res, lambda ev: ev.kind == 'call' and ev.callee() == 'photon::SleepQueue::pop_front',
               require=lambda st, ev: any(x.endswith('->lock') for x in an.held(st)),
               key_fn=lambda ev: P + '.K2:photon::resume_threads_inlined:pop_front-under-thread-lock',
               describe=lambda ev: 'expired sleeper popped with its thread lock held', min_sites=1, what='pop_front')
    K.check_at(R, P + '.K6', G, res, lambda ev: ev.kind == 'call' and ev.callee() == 'photon::thread::dequeue_ready_atomic',
               require=lambda st, ev: any(re.match(r'^G:\w+->state == 2=T$', x) for x in st),
               key_fn=lambda ev: P + '.K6:photon::resume_threads_inlined:dequeue-only-if-still-sleeping',
               describe=lambda ev: 'expired sleeper made READY only if still SLEEPING under its lock (not concurrently interrupted)', min_sites=1, what='dequeue_ready_atomic')


def wait_all_covers_every_queue(R, prog, P):
    """K6: wait_all() (used by vcpu_fini) returns only when the vCPU has nothing left in ANY of its three queues - run queue, sleep
    queue and standby queue (threads handed over by other vCPUs: migration, cross-vCPU wake-ups).  A queue left out loses its threads."""
    f = prog.find('photon::wait_all', sig='RunQ')
    G = K.build_f(R, prog, f)
    res = an.run(G, [an.GuardTracker(lambda k: True, pure={'photon::AtomicRunQ::size_1or2', 'photon::SleepQueue::empty', 'photon::vcpu_t::standbyq_t::empty'})])
    def all_empty(st, ev):
        keys = [k for k in st if k.endswith('=T')]
        sq = any(re.search(r'sleepq[\w.>()-]*\.empty\(\)=T$', k) or re.search(r'sleepq\.empty\(\)=T$', k) for k in keys)
        bq = any(re.search(r'standbyq[\w.>()-]*\.empty\(\)=T$', k) or re.search(r'standbyq\.empty\(\)=T$', k) for k in keys)
        rq = any('size_1or2()' in k for k in keys)
        return sq and bq and rq
    K.check_at(R, P + '.K6', G, res, lambda ev: ev.kind == 'return' and ev.depth == 0, all_empty,
               key_fn=lambda ev: P + '.K6:photon::wait_all:returns-only-when-run-sleep-and-standby-queues-are-empty',
               describe=lambda ev: 'wait_all() returns only after the run queue (1-2 threads), the sleep queue and the standby queue were all seen empty', min_sites=1, what='return')


def wake_reason_before_publish(R, prog, P):
    """K8: the wake-up reason of a sleeper (thread::error_number) is stored BEFORE the sleeper is published as runnable
    (dequeue_ready_atomic / standby queue / run queue, all reached through prelocked_thread_interrupt()): once published, another
    vCPU may run the thread, which reads and clears error_number immediately -- a store that lands after the publication is either
    lost (the sleeper reports a timeout / 0 for a notification) or delivered to a later, unrelated sleep.  The store may sit in
    prelocked_thread_interrupt() itself (today) or in every caller before the call (an equivalent refactoring); what is rejected
    is a path on which the thread is published with no reason stored, and a reason stored for a thread after it was published."""
    ERRN = 'photon::thread::error_number'
    WAKE = 'photon::prelocked_thread_interrupt'
    def wr(ev):
        w = K.written_member(ev)
        return bool(w) and w[0] == ERRN
    def wr_base(ev):
        w = K.written_member(ev)
        p = w[1] if w else ''
        return p[:-len('->error_number')] if p.endswith('->error_number') else None
    publish = lambda ev: ev.kind == 'call' and ((ev.callee() or '') in ('photon::thread::dequeue_ready_atomic', 'photon::AtomicRunQ::insert_tail')
                                                 or (ev.callee() or '').endswith('move_to_standbyq_atomic'))
    G = K.build(R, prog, WAKE)
    th = K.param(G.root, 0)
    res = an.run(G, [an.SeenTracker([('reason', wr), ('published', publish)])])
    n = 0
    callee_stores = True
    for nid, idx, ev, states in res.at(publish):
        for st in states:
            n += 1
            if 'S:reason' not in st:
                callee_stores = False
    if n == 0:
        R.broken.append('%s.K8: prelocked_thread_interrupt no longer publishes the thread (anchor vanished)' % P)
    K.check_at(R, P + '.K8', G, res, wr, require=lambda st, ev: 'S:published' not in st,
               key_fn=lambda ev: P + '.K8:photon::prelocked_thread_interrupt:no-reason-store-after-publish',
               describe=lambda ev: 'inside the wake routine the reason is not written once the thread was dequeued/queued as runnable', min_sites=0, what='error_number write')
    callers = K._dedupe(K.callers_of(prog, WAKE))
    sites = 0
    for f in callers:
        G = K.build_f(R, prog, f)
        wake = lambda ev: ev.kind == 'call' and ev.callee() == WAKE
        names = sorted({ev.arg_path(0) for nid, idx, ev in G.events() if wake(ev) and ev.arg_path(0)})
        spec = []
        for X in names:
            rebind = lambda ev, X=X: (ev.kind == 'declstmt' and any(ev.f.decls[v['decl']]['name'] == X for v in ev.e['vars'])) or \
                                     (ev.kind == 'binop' and ev.e['op'] == '=' and ev.path(ev.e['l']) == X) or \
                                     (ev.kind == 'construct' and X in (ev.show() or '').split('(')[0].split())
            spec.append(('reason:' + X, lambda ev, X=X: wr(ev) and wr_base(ev) == X, ()))
            spec.append(('woken:' + X, lambda ev, X=X: wake(ev) and ev.arg_path(0) == X, ('reason:' + X,)))
            spec.append(('rebind:' + X, rebind, ('woken:' + X, 'reason:' + X)))
        res = an.run(G, [an.SeenTracker(spec)])
        sites += K.check_at(R, P + '.K8', G, res, wake,
                            require=lambda st, ev: callee_stores or ('S:reason:%s' % ev.arg_path(0)) in st,
                            key_fn=lambda ev, f=f: '%s.K8:%s:reason-stored-before-publish' % (P, f.nname),
                            describe=lambda ev: 'the sleeper handed to prelocked_thread_interrupt() has its wake-up reason stored (by the callee before its first publication, or by this caller before the call)',
                            min_sites=1, what='prelocked_thread_interrupt')
        K.check_at(R, P + '.K8', G, res, lambda ev: wr(ev) and wr_base(ev) in names,
                   require=lambda st, ev: ('S:woken:%s' % wr_base(ev)) not in st,
                   key_fn=lambda ev, f=f: '%s.K8:%s:no-reason-store-after-wake' % (P, f.nname),
                   describe=lambda ev: 'no reason is written for a thread after it was handed to prelocked_thread_interrupt() (it may already be running on another vCPU)',
                   min_sites=0, what='error_number write')
    R.require(sites >= 5, '%s.K8: expected >= 5 call sites of prelocked_thread_interrupt, found %d' % (P, sites))
