"""C06 — Reader-writer locks (DESIGN.md §5 C06)."""
import re
from sa.facts import AnalysisBroken, strip_targs
from sa import analysis as an
from sa import rules as K

UNITS = ['thread/thread.cpp']
FLOOR = 30
P = 'C06'
CLAIM = ('Decides for rwlock: state is touched only under its mutex; the state update requires the conflict test (op & state)==0 established '
         'after the last wait; a failing return performs no state write and a successful one does; the waiter mode mark is restored on every '
         'exit; unlock wakes waiters when the state reaches 0 with a non-empty queue. For qrwlock: lock_state is written only by the four '
         'intended operations with acquire/release orders; the shared CAS is guarded by 0 <= state < MAX and adds exactly 1, the unique CAS goes '
         '0 -> WRITE_LOCKED; the blocking path waits on the condvar with the spinlock held, returns 0 only after try_fn()==true and -1 only after '
         'the last try_fn()==false; try_wake is called only with the spinlock held, after the releasing store / only by the last reader; '
         'unlock dispatches on the observed state.')
ST = 'photon::rwlock::state'
LS = 'photon::qrwlock::lock_state'
MARK = 'photon::thread::(anonymous union)::rwlock_mark'


def state_write(ev):
    w = K.written_member(ev)
    return bool(w) and w[0] == ST


def rwlock(R, prog):
    for fn in ('photon::rwlock::lock', 'photon::rwlock::unlock'):
        G = K.build(R, prog, fn)
        lt = an.LockTracker()
        gt = an.GuardTracker(lambda k: True, kill_calls=('photon::condition_variable::wait',))
        mark_w = lambda ev: (K.written_member(ev) or ('',))[0] == MARK
        seen = an.SeenTracker([('state_write', state_write),
                               ('mark_set', lambda ev: mark_w(ev) and ev.depth == 0, ('mark_restored',)),
                               ('mark_restored', lambda ev: mark_w(ev) and ev.depth > 0, ('mark_set',)),
                               ('notify', lambda ev: ev.kind == 'call' and (ev.callee() or '').split('::')[-1] in ('notify_one', 'notify_all', 'signal', 'broadcast'))])
        res = an.run(G, [lt, gt, seen])
        K.check_at(R, P + '.K3', G, res, lambda ev: ev.kind == 'member' and ev.e.get('field') == ST,
                   require=lambda st, ev: an.has_lock(st, 'this->mtx'),
                   key_fn=lambda ev, fn=fn: '%s.K3:%s:state' % (P, fn),
                   describe=lambda ev: 'rwlock::state accessed under this->mtx', min_sites=2, what='state access')
        if fn.endswith('::unlock'):
            # a queued waiter is admitted according to the mode bit it carries: every wake-up is justified by a POSITIVE test of RLOCK or WLOCK
            K.check_at(R, P + '.K6', G, res, lambda ev: ev.kind == 'call' and (ev.callee() or '').split('::')[-1] in ('notify_one', 'notify_all'),
                       require=lambda st, ev: any(re.match(r'^G:\(.*rwlock_mark & (4096|8192)\)=T$', x) for x in st),
                       key_fn=lambda ev: P + '.K6:photon::rwlock::unlock:admit-by-the-mode-bit-the-waiter-carries',
                       describe=lambda ev: 'the head waiter is woken only after its mark tested positive for RLOCK (0x1000) or WLOCK (0x2000)', min_sites=2, what='cvar.notify_one')
        if fn.endswith('::lock'):
            # the mark carried while queued has exactly the requested mode bit: both mode bits are cleared before the mode is set
            # (the field shares a union with other per-thread words, so stale bits are possible)
            def clears_mode_bits(ev):
                if ev.kind == 'binop' and ev.e['op'] in ('&=', '&'):
                    c = ev.f.const(ev.e['r'])
                    return c is not None and (c & 0x3000) == 0
                return False
            res_m = an.run(G, [an.SeenTracker([('cleared', clears_mode_bits)])])
            K.check_at(R, P + '.K8', G, res_m, lambda ev: mark_w(ev) and ev.depth == 0,
                       require=lambda st, ev: 'S:cleared' in st,
                       key_fn=lambda ev: P + '.K8:photon::rwlock::lock:mode-bits-cleared-before-the-mode-is-set',
                       describe=lambda ev: 'rwlock_mark is published for the wait only after RLOCK|WLOCK were masked out of it', min_sites=1, what='rwlock_mark write')
            K.check_at(R, P + '.K6', G, res, state_write,
                       require=lambda st, ev: any(re.match(r'^G:\(\w+ & this->state\)=F$', x) or re.match(r'^G:\(this->state & \w+\)=F$', x) for x in st),
                       key_fn=lambda ev: P + '.K6:photon::rwlock::lock:state-update-after-conflict-test',
                       describe=lambda ev: 'state update requires (op & state)==0 since the last wait', min_sites=1, what='state write')
            K.check_at(R, P + '.K7', G, res, lambda ev: ev.kind == 'return' and ev.depth == 0 and ev.f.const(ev.e['sub']) == 0,
                       require=lambda st, ev: 'S:state_write' in st,
                       key_fn=lambda ev: P + '.K7:photon::rwlock::lock:success-has-updated-state',
                       describe=lambda ev: '`return 0` only after the state update', min_sites=1, what='return 0')
            K.check_at(R, P + '.K7', G, res, lambda ev: (ev.kind == 'return' and ev.depth == 0 and ev.f.const(ev.e['sub']) not in (0, None)),
                       require=lambda st, ev: 'S:state_write' not in st,
                       key_fn=lambda ev: P + '.K7:photon::rwlock::lock:failure-leaves-state',
                       describe=lambda ev: 'failing return has not written the state', min_sites=2, what='return -1')
            # a waiter that was notified has consumed the single wake-up unlock() issues: it may only go on to re-test, never fail
            waits = K.locals_assigned_from_call(G.root, r'^photon::condition_variable::wait$')
            waited = lambda ev: ev.kind == 'call' and ev.callee() == 'photon::condition_variable::wait'
            res_w = an.run(G, [an.GuardTracker(lambda k: True), an.SeenTracker([('waited', waited)])])
            K.check_at(R, P + '.K6', G, res_w, lambda ev: (ev.kind == 'return' and ev.depth == 0 and ev.f.const(ev.e['sub']) not in (0, None)),
                       require=lambda st, ev: 'S:waited' not in st or any(('G:%s < 0=T' % w) in st for w in waits) or
                       any(re.match(r'^G:\[?this->cvar\.wait\(.*\)\]? < 0=T$', x) for x in st),
                       key_fn=lambda ev: P + '.K6:photon::rwlock::lock:failure-only-on-failed-wait',
                       describe=lambda ev: 'after waiting, lock() fails only if the wait itself failed (a notified waiter holds the wake-up and must proceed)', min_sites=1, what='return -1')
            K.check_at(R, P + '.K4', G, res, lambda ev: ev.kind == 'exit',
                       require=lambda st, ev: 'S:mark_set' not in st,
                       key_fn=lambda ev: P + '.K4:photon::rwlock::lock:mark-restored',
                       describe=lambda ev: 'waiter mode mark restored (deferred) on every exit that set it', min_sites=1, what='exit')
            # a waiting thread must be marked before it can sleep (unlock() reads the mark of queued threads)
            K.check_at(R, P + '.K8', G, res, lambda ev: ev.kind == 'call' and ev.callee() == 'photon::condition_variable::wait',
                       require=lambda st, ev: 'S:mark_set' in st and an.has_lock(st, 'this->mtx'),
                       key_fn=lambda ev: P + '.K8:photon::rwlock::lock:marked-before-wait',
                       describe=lambda ev: 'mode mark published and mutex held before waiting', min_sites=1, what='cvar.wait')
        else:
            K.check_at(R, P + '.K6', G, res, lambda ev: ev.kind == 'call' and (ev.callee() or '').split('::')[-1] in ('notify_one', 'notify_all'),
                       require=lambda st, ev: 'G:this->state=F' in st and an.has_lock(st, 'this->mtx'),
                       key_fn=lambda ev: P + '.K6:photon::rwlock::unlock:wake-only-when-free',
                       describe=lambda ev: 'waiters woken only when state==0, under the mutex', min_sites=2, what='notify')
            K.check_at(R, P + '.K7', G, res, lambda ev: ev.kind == 'exit',
                       require=lambda st, ev: not ('G:this->state=F' in st and 'G:this->cvar.q.th=T' in st) or 'S:notify' in st or
                       len(set(x for x in st if re.match(r'^G:.*rwlock_mark & \d+\)=F$', x))) >= 2,
                       key_fn=lambda ev: P + '.K7:photon::rwlock::unlock:must-wake',
                       describe=lambda ev: 'state==0 with waiters => a waiter is notified', min_sites=1, what='exit')
            K.check_at(R, P + '.K7', G, res, lambda ev: ev.kind == 'exit',
                       require=lambda st, ev: 'S:state_write' in st,
                       key_fn=lambda ev: P + '.K7:photon::rwlock::unlock:state-updated',
                       describe=lambda ev: 'unlock always updates the state', min_sites=1, what='exit')


def qrw_k1(R, prog):
    T = [('photon::qrwlock::__trylock', 'lock_state', 'compare_exchange_strong', 'acquire'),
         ('photon::qrwlock::__trylock_shared', 'lock_state', 'compare_exchange_weak', 'acquire'),
         ('photon::qrwlock::__unlock_unique', 'lock_state', 'store', 'release'),
         ('photon::qrwlock::__unlock_shared', 'lock_state', 'fetch_sub', 'release')]
    for fn, obj, op, need in T:
        R.guard(K.k1_atomic_order, R, prog, P + '.K1', fn, obj, op, need)


def qrw(R, prog):
    K.k9_who_writes(R, P + '.K9', prog, LS, allowed={'photon::qrwlock::qrwlock', 'photon::qrwlock::__trylock', 'photon::qrwlock::__trylock_shared',
                                                      'photon::qrwlock::__unlock_unique', 'photon::qrwlock::__unlock_shared'}, min_sites=4)
    cas = lambda ev: (K.atomic_op(ev) or (None, ''))[1].startswith('compare_exchange') and (K.atomic_op(ev)[0] or '').endswith('lock_state')
    # shared
    G = K.build(R, prog, 'photon::qrwlock::__trylock_shared')
    f = G.root
    res = an.run(G, [an.GuardTracker(lambda k: True)])

    def shared_ok(st, ev):
        exp = ev.arg_show(0)
        des = ev.arg_show(1)
        lo = ('G:%s < 0=F' % exp) in st
        hi = any(re.match(r'^G:%s < (\d+)=T$' % re.escape(exp), x) for x in st)
        return lo and hi and des == '(%s + 1)' % exp
    K.check_at(R, P + '.K6', G, res, cas, shared_ok,
               key_fn=lambda ev: P + '.K6:photon::qrwlock::__trylock_shared:cas-guard',
               describe=lambda ev: 'CAS(state -> state+1) requires 0 <= state < MAX', min_sites=1, what='CAS')
    K.check_at(R, P + '.K6', G, res, lambda ev: ev.kind == 'return' and ev.depth == 0 and ev.f.const(ev.e['sub']) == 1,
               require=lambda st, ev: any(re.match(r'^G:this->lock_state\.compare_exchange_\w+\(.*\)=T$', x) for x in st),
               key_fn=lambda ev: P + '.K6:photon::qrwlock::__trylock_shared:true-only-after-cas',
               describe=lambda ev: '`return true` only after a successful CAS', min_sites=1, what='return true')
    # unique
    G = K.build(R, prog, 'photon::qrwlock::__trylock')
    f = G.root
    for nid, idx, ev in G.events():
        if cas(ev):
            a0 = f.x(f.skip(ev.e['args'][0]))
            f.aliases()
            init = f.inits.get(a0['decl']) if a0 is not None and a0['k'] == 'ref' else None   # the value the CAS expects on its first (only) attempt
            expv = f.const(init) if init is not None else None
            desv = f.const(ev.e['args'][1])
            key = P + '.K6:photon::qrwlock::__trylock:cas-0-to-writelocked'
            if expv == 0 and desv == -1:
                R.held(P + '.K6', key, f.id, ev.loc(), 'CAS(0 -> WRITE_LOCKED)')
            else:
                R.violated(P + '.K6', key, f.id, ev.loc(), 'unique CAS is %s -> %s, expected 0 -> -1' % (expv, desv))
    # try_wake contract
    n = 0
    unlockers = [prog.find('photon::qrwlock::__unlock_unique'), prog.find('photon::qrwlock::__unlock_shared')]
    for f in unlockers + [g for g in K.callers_of(prog, 'photon::qrwlock::try_wake') if g not in unlockers]:
        G = K.build_f(R, prog, f)
        wr = lambda ev: (K.written_member(ev) or ('',))[0] == LS
        res = an.run(G, [an.LockTracker(), an.GuardTracker(lambda k: True), an.SeenTracker([('release', wr), ('wake', lambda ev: ev.kind == 'call' and ev.callee() == 'photon::qrwlock::try_wake')])])
        n += K.k2_requires_lock(R, P + '.K2', G, res, 'photon::qrwlock::try_wake', lock_of=lambda ev: 'this->spin', min_sites=0)
        K.check_at(R, P + '.K8', G, res, lambda ev: ev.kind == 'call' and ev.callee() == 'photon::qrwlock::try_wake',
                   require=lambda st, ev: 'S:release' in st,
                   key_fn=lambda ev, f=f: '%s.K8:%s:wake-after-release' % (P, f.nname),
                   describe=lambda ev: 'waiters woken after the releasing write of lock_state', min_sites=1, what='try_wake')
        if f.nname.endswith('__unlock_shared'):
            prev = K.local_names_init_by(f, lambda e, i: e['k'] == 'call' and 'fetch_sub' in (e.get('fn') or ''))
            K.check_at(R, P + '.K7', G, res, lambda ev: ev.kind == 'exit',
                       require=lambda st, ev: 'S:wake' in st or any(('G:%s == 1=F' % p) in st for p in prev),
                       key_fn=lambda ev: P + '.K7:photon::qrwlock::__unlock_shared:last-reader-wakes',
                       describe=lambda ev: 'the last reader (prev==1) wakes waiters', min_sites=1, what='exit')
        else:
            K.check_at(R, P + '.K7', G, res, lambda ev: ev.kind == 'exit',
                       require=lambda st, ev: 'S:wake' in st and 'S:release' in st,
                       key_fn=lambda ev, f=f: '%s.K7:%s:release-and-wake' % (P, f.nname),
                       describe=lambda ev: 'unique unlock releases and wakes on every path', min_sites=1, what='exit')
    if n < 1:
        R.broken.append('C06.K2: no call site of qrwlock::try_wake left')
    # try_wake itself: writers first, else all readers
    G = K.build(R, prog, 'photon::qrwlock::try_wake')
    res = an.run(G, [an.GuardTracker(lambda k: True), an.SeenTracker([('all', lambda ev: ev.kind == 'call' and (ev.callee() or '').endswith('notify_all'))])])
    K.check_at(R, P + '.K7', G, res, lambda ev: ev.kind == 'exit',
               require=lambda st, ev: 'S:all' in st or 'G:this->cv_unique.notify_one()=T' in st,
               key_fn=lambda ev: P + '.K7:photon::qrwlock::try_wake:writer-or-all-readers',
               describe=lambda ev: 'either a writer was woken or all readers are', min_sites=1, what='exit')
    # blocking path
    fs = prog.find('photon::qrwlock::do_lock', all=True)
    R.require(len(fs) >= 2, 'C06: expected 2 instantiations of qrwlock::do_lock')
    for f in fs:
        G = K.build_f(R, prog, f)
        tf = f.decls[f.j['params'][0]]['name']
        res = an.run(G, [an.LockTracker(), an.GuardTracker(lambda k: True)])
        tag = 'unique' if '__trylock()' in ''.join(g.show(i) for g in prog.lambdas_of(prog.find('photon::qrwlock::lock')) for i in range(len(g.exprs)) if g.id in f.id) else f.id[-40:]
        inst = 'do_lock#%d' % fs.index(f)
        K.check_at(R, P + '.K2', G, res, lambda ev: ev.kind == 'call' and ev.callee() == 'photon::condition_variable::wait',
                   require=lambda st, ev: an.has_lock(st, 'this->spin') and ev.arg_path(0) in ('this->spin', '&this->spin'),
                   key_fn=lambda ev, inst=inst: '%s.K2:photon::qrwlock::%s:wait-under-spin' % (P, inst),
                   describe=lambda ev: 'cv.wait(spin) with spin held (check-and-sleep atomic w.r.t. try_wake)', min_sites=1, what='cv.wait')
        K.check_at(R, P + '.K6', G, res, lambda ev: ev.kind == 'return' and ev.depth == 0 and ev.f.const(ev.e['sub']) == 0,
                   require=lambda st, ev, tf=tf: ('G:%s()=T' % tf) in st,
                   key_fn=lambda ev, inst=inst: '%s.K6:photon::qrwlock::%s:return0' % (P, inst),
                   describe=lambda ev: '`return 0` requires try_fn()==true', min_sites=2, what='return 0')
        K.check_at(R, P + '.K6', G, res, lambda ev: ev.kind == 'return' and ev.depth == 0 and ev.f.const(ev.e['sub']) not in (0, None),
                   require=lambda st, ev, tf=tf: ('G:%s()=F' % tf) in st,
                   key_fn=lambda ev, inst=inst: '%s.K6:photon::qrwlock::%s:failure-after-failed-try' % (P, inst),
                   describe=lambda ev: 'failing return: the last try_fn() had failed (nothing acquired)', min_sites=1, what='return -1')
    for f in fs:
        G = K.build_f(R, prog, f)
        for nid, idx, ev in G.events():
            if ev.kind == 'return' and ev.depth == 0 and ev.f.const(ev.e['sub']) is None:
                R.violated(P + '.K6', '%s.K6:photon::qrwlock::do_lock#%d:result-decided-by-try' % (P, fs.index(f)), f.id, ev.loc(),
                           'do_lock returns %s: the result is not decided by the outcome of the last try_fn() (a wait result can be 0 without the lock, '
                           'or -1 after a try that acquired it)' % ev.show(ev.e['sub'])[:60])
    # lock(): the try functions and condvars are paired
    f = prog.find('photon::qrwlock::lock')
    pairs = []
    for e in f.exprs:
        if e['k'] == 'call' and strip_targs(e.get('fn') or '') == 'photon::qrwlock::do_lock':
            lam = f.x(f.skip(e['args'][0]))
            lf = prog.funcs.get(lam.get('fnid')) if lam is not None and lam['k'] == 'lambda' else None
            called = sorted(set(strip_targs(x.get('fn') or '').split('::')[-1] for x in lf.exprs if x['k'] == 'call')) if lf else []
            pairs.append((called, f.path(e['args'][1]), f.locl(e['loc'])))
    want = {('__trylock',): 'this->cv_unique', ('__trylock_shared',): 'this->cv_shared'}
    for called, cv, site in pairs:
        key = '%s.K10:photon::qrwlock::lock:%s' % (P, '+'.join(called))
        if want.get(tuple(called)) == cv:
            R.held(P + '.K10', key, f.id, site, '%s waits on %s' % (called, cv))
        else:
            R.violated(P + '.K10', key, f.id, site, '%s paired with %s' % (called, cv))
    if len(pairs) < 2:
        R.broken.append('C06.K10: qrwlock::lock no longer calls do_lock twice')
    # unlock(): dispatch on the observed state
    G = K.build(R, prog, 'photon::qrwlock::unlock')
    f = G.root
    cur = K.local_names_init_by(f, lambda e, i: e['k'] == 'call' and 'lock_state' in f.show(i))
    res = an.run(G, [an.GuardTracker(lambda k: True)])
    K.check_at(R, P + '.K6', G, res, lambda ev: ev.kind == 'call' and ev.callee() == 'photon::qrwlock::__unlock_unique',
               require=lambda st, ev: any(('G:%s == -1=T' % c) in st for c in cur),
               key_fn=lambda ev: P + '.K6:photon::qrwlock::unlock:unique-iff-writelocked',
               describe=lambda ev: '__unlock_unique only when state == WRITE_LOCKED', min_sites=1, what='__unlock_unique')
    K.check_at(R, P + '.K6', G, res, lambda ev: ev.kind == 'call' and ev.callee() == 'photon::qrwlock::__unlock_shared',
               require=lambda st, ev: any(('G:%s == -1=F' % c) in st and ('G:%s=T' % c) in st for c in cur),
               key_fn=lambda ev: P + '.K6:photon::qrwlock::unlock:shared-iff-readers',
               describe=lambda ev: '__unlock_shared only when state is neither 0 nor WRITE_LOCKED', min_sites=1, what='__unlock_shared')


def run(R, prog, tier):
    R.guard(rwlock, R, prog)
    qrw_k1(R, prog)
    R.guard(qrw, R, prog)
