"""C19 — ObjectCache (DESIGN.md §5 C19)."""
import re
from sa.facts import AnalysisBroken, strip_targs
from sa import analysis as an
from sa import rules as K
from rules import common as C

UNITS = ['common/expirecontainer.cpp', 'witness/objcache.cpp']
FLOOR = 50
P = 'C19'
CLAIM = ('Decides for common/expirecontainer.{h,cpp} and objectcachev2.h: (1) reference count, recycle marker, index and expiry list are '
         'accessed only under the container spinlock (helpers insert/__find_prelock/enqueue only from call sites that hold it); (2) the '
         'expiry list holds only unreferenced items: taking a reference removes the item from the list in the same critical section, '
         're-enqueueing and the recycler signal require a zero count; (3) an item is deleted by ref_release only on the recycle path after the '
         'last holder signalled and the index entry was erased; a recycling release waits for every other holder; acquirers block while an '
         'item is being recycled; (4) the constructor runs under the per-item mutex, only while the object is still null, a failed '
         'construction releases the reference and reports null, success returns a non-null object; (5) ObjectCacheV2: map/lru_list under '
         'maplock, erase only with rc==0, re-queue on last release under the lock, the constructor only under the per-box create lock.')
OI = 'ObjectCacheBase::Item::'
EB = 'ExpireContainerBase::'


def base(R, prog):
    cpp = [f for f in prog.funcs.values() if f.file.endswith('common/expirecontainer.cpp') or f.file.endswith('common/expirecontainer.h')]
    helpers = {EB + 'insert', EB + '__find_prelock', EB + 'enqueue'}
    lockless_ok = {EB + 'size': 'diagnostic size read', EB + 'begin': 'iterator factory used inside locked regions of the callers',
                   EB + 'end': 'iterator factory (end() is a constant sentinel for unordered_set)',
                   EB + 'ExpireContainerBase': 'constructor', EB + '~ExpireContainerBase': 'destructor',
                   'ExpireContainer::list': 'returns a typed reference to the list; its users are checked where they touch it'}
    for fld in ('_list', '_set'):
        exc = dict(lockless_ok)
        for h in helpers:
            exc[h] = 'helper analysed under its contract (_lock held), verified at its call sites'
        K.k3_field_guarded(R, P + '.K3', prog, [f for f in cpp if (f.rec or '').startswith(('ExpireContainerBase', 'ObjectCacheBase', 'ExpireContainer', 'ExpireList', '__ObjectCache')) or f.kind == 'lambda'],
                           EB + fld, lambda base, ev: 'this->_lock', exceptions=exc, min_sites=3, inline_lambda_args=('intrusive_list::split_by_predicate',))
    for fld in ('_refcnt', '_recycle'):
        K.k3_field_guarded(R, P + '.K3', prog, [f for f in cpp if f.nname.startswith('ObjectCacheBase::ref_')], OI + fld,
                           lambda base, ev: 'this->_lock', min_sites=3)
    n = 0
    for h in helpers:
        for g in K.callers_of(prog, h):
            if g.nname in helpers:
                continue
            GG = K.build_f(R, prog, g)
            rr = an.run(GG, [an.LockTracker()])
            n += K.k2_requires_lock(R, P + '.K2', GG, rr, h, lock_of=lambda ev: 'this->_lock', min_sites=1)
    if n < 8:
        R.broken.append('C19.K2: expected >= 8 call sites of the prelocked helpers, found %d' % n)

    # ref_acquire
    G = K.build(R, prog, 'ObjectCacheBase::ref_acquire')
    f = G.root
    popped = lambda ev: ev.kind == 'call' and (ev.callee() or '').endswith('::pop') and (ev.recv_path() or '').endswith('_list')
    refinc = lambda ev: (K.written_member(ev) or ('',))[0] == OI + '_refcnt' and ev.kind == 'unop' and ev.e['op'] == '++'
    blocked = lambda ev: ev.kind == 'call' and ev.callee() == 'photon::condition_variable::wait' and (ev.recv_path() or '').endswith('blocker')
    ctor = lambda ev: ev.kind == 'call' and ev.e.get('op') == '()' and (ev.recv_path() or '') == f.decls[f.j['params'][1]]['name']
    released = lambda ev: ev.kind == 'call' and ev.callee() == 'ObjectCacheBase::ref_release'
    seen = an.SeenTracker([('popped', popped), ('blocked', blocked, ('popped',)), ('ref', refinc), ('ctor', ctor), ('released', released)])
    lt = an.LockTracker()
    res = an.run(G, [lt, an.GuardTracker(lambda k: True, kill_calls=('photon::condition_variable::wait',), lock_tracker=lt), seen, an.ConstTracker()])
    K.check_at(R, P + '.K13', G, res, refinc,
               require=lambda st, ev: 'S:popped' in st and an.has_lock(st, 'this->_lock') and any(re.match(r'^G:\w+->_recycle=F$', x) for x in st),
               key_fn=lambda ev: P + '.K13:ObjectCacheBase::ref_acquire:reference-removes-from-expiry-list',
               describe=lambda ev: '_refcnt++ only after the item was popped from the expiry list in this critical section, and only if it is not being recycled',
               min_sites=1, what='_refcnt++')
    K.check_at(R, P + '.K2', G, res, blocked,
               require=lambda st, ev: an.has_lock(st, 'this->_lock') and ev.arg_path(0) in ('this->_lock', '&this->_lock'),
               key_fn=lambda ev: P + '.K2:ObjectCacheBase::ref_acquire:block-while-recycling',
               describe=lambda ev: 'an acquirer of an item under recycling waits on the blocker with _lock', min_sites=1, what='blocker.wait')
    K.check_at(R, P + '.K2', G, res, ctor,
               require=lambda st, ev: any(re.match(r'^L:\w+->_mtx$', 'L:' + x) for x in an.held(st)) and 'S:ref' in st and any(re.match(r'^G:\w+->_obj=F$', x) for x in st) and
               not an.has_lock(st, 'this->_lock'),
               key_fn=lambda ev: P + '.K2:ObjectCacheBase::ref_acquire:construct-under-item-mutex',
               describe=lambda ev: 'the constructor runs under the per-item mutex (not the container spinlock), holding a reference, only while the object is null',
               min_sites=1, what='ctor(item)')
    K.check_at(R, P + '.K7', G, res, lambda ev: ev.kind == 'return' and ev.depth == 0,
               require=lambda st, ev: ('S:released' in st and ev.f.const(ev.e['sub']) == 0) if any(re.match(r'^G:\w+->_obj=F$', x) for x in st) else
               (ev.f.const(ev.e['sub']) is None and 'S:released' not in st and 'S:ref' in st and any(re.match(r'^G:\w+->_obj=T$', x) for x in st)),
               key_fn=lambda ev: P + '.K7:ObjectCacheBase::ref_acquire:failed-construction-releases',
               describe=lambda ev: 'null object => the reference is released and nullptr returned; otherwise the referenced item is returned', min_sites=2, what='returns')
    # ref_release
    G = K.build(R, prog, 'ObjectCacheBase::ref_release')
    f = G.root
    item = f.decls[f.j['params'][0]]['name']
    rec = f.decls[f.j['params'][1]]['name']
    semwait = lambda ev: ev.kind == 'call' and (ev.callee() or '').startswith('photon::semaphore::wait')
    erased = lambda ev: ev.kind == 'call' and (ev.callee() or '').endswith('::erase') and (ev.recv_path() or '').endswith('_set')
    deleted = lambda ev: ev.kind == 'delete'
    refdec = lambda ev: (K.written_member(ev) or ('',))[0] == OI + '_refcnt' and ev.kind == 'unop' and ev.e['op'] == '--'
    seen = an.SeenTracker([('waited', semwait), ('erased', erased), ('deleted', deleted), ('dec', refdec),
                           ('notified', lambda ev: ev.kind == 'call' and (ev.callee() or '').endswith('notify_all') and (ev.recv_path() or '').endswith('blocker'))])
    res = an.run(G, [an.LockTracker(), an.GuardTracker(lambda k: True), seen])
    zero = lambda st: ('G:%s->_refcnt=F' % item) in st
    K.check_at(R, P + '.K6', G, res, lambda ev: ev.kind == 'call' and ev.callee() == EB + 'enqueue',
               require=lambda st, ev: zero(st) and an.has_lock(st, 'this->_lock') and ('G:%s->_recycle=F' % item) in st,
               key_fn=lambda ev: P + '.K6:ObjectCacheBase::ref_release:enqueue-only-unreferenced',
               describe=lambda ev: 'an item returns to the expiry list only with _refcnt == 0 and no recycler, under _lock', min_sites=1, what='enqueue')
    K.check_at(R, P + '.K6', G, res, lambda ev: ev.kind == 'call' and ev.callee() == 'photon::semaphore::signal',
               require=lambda st, ev: zero(st) and an.has_lock(st, 'this->_lock'),
               key_fn=lambda ev: P + '.K6:ObjectCacheBase::ref_release:recycler-signalled-by-last-holder',
               describe=lambda ev: 'the recycler is signalled only when the count dropped to zero', min_sites=1, what='_recycle->signal')
    K.check_at(R, P + '.K8', G, res, erased, require=lambda st, ev: 'S:waited' in st and an.has_lock(st, 'this->_lock') and ('G:%s=T' % rec) in st,
               key_fn=lambda ev: P + '.K8:ObjectCacheBase::ref_release:erase-after-all-released',
               describe=lambda ev: 'the index entry is erased only on the recycle path after waiting for every holder', min_sites=1, what='_set.erase')
    K.check_at(R, P + '.K8', G, res, deleted, require=lambda st, ev: 'S:waited' in st and 'S:erased' in st and 'S:deleted' not in st and ('G:%s=T' % rec) in st,
               key_fn=lambda ev: P + '.K8:ObjectCacheBase::ref_release:delete-after-erase',
               describe=lambda ev: 'the item is deleted once, after the wait and the erase, only when recycling', min_sites=1, what='delete item')
    K.check_at(R, P + '.K7', G, res, lambda ev: ev.kind == 'exit',
               require=lambda st, ev: 'S:dec' in st and (('G:%s=T' % rec) not in st or ('S:deleted' in st and 'S:notified' in st)),
               key_fn=lambda ev: P + '.K7:ObjectCacheBase::ref_release:always-drops-one-reference',
               describe=lambda ev: 'every path drops exactly the caller\'s reference; a recycling release ends with delete + blocker.notify_all', min_sites=1)
    # expire: only the split-off (expired, unreferenced because they are in _list) items are deleted, outside the lock
    G = K.build(R, prog, EB + 'expire', lambda_args=('intrusive_list::split_by_predicate',))
    res = an.run(G, [an.LockTracker()])
    K.check_at(R, P + '.K2', G, res, lambda ev: ev.kind == 'call' and (ev.callee() or '').endswith('::split_by_predicate'),
               require=lambda st, ev: an.has_lock(st, 'this->_lock') and (ev.recv_path() or '').endswith('_list'),
               key_fn=lambda ev: P + '.K2:ExpireContainerBase::expire:split-under-lock', describe=lambda ev: 'expiry scan of _list under _lock', min_sites=1)
    K.check_at(R, P + '.K2', G, res, lambda ev: ev.kind == 'call' and (ev.callee() or '').endswith('::delete_all'),
               require=lambda st, ev: not an.has_lock(st, 'this->_lock'),
               key_fn=lambda ev: P + '.K2:ExpireContainerBase::expire:delete-outside-lock', describe=lambda ev: 'destructors of expired items run after the lock was dropped', min_sites=1)


def v2(R, prog):
    fs = [f for f in prog.funcs.values() if f.name.startswith('ObjectCacheV2<') and f.file.endswith('objectcachev2.h')]
    R.require(len(fs) >= 8, 'C19: ObjectCacheV2 instantiation not found')
    for fld in ('map', 'lru_list'):
        n = 0
        for f in fs:
            if f.nname.endswith('::~ObjectCacheV2') or f.nname.endswith('::ObjectCacheV2'):
                continue
            if not any(e['k'] == 'member' and e['name'] == fld and 'ObjectCacheV2' in e.get('field', '') for e in f.exprs):
                continue
            G = K.build_f(R, prog, f)
            res = an.run(G, [an.LockTracker()])
            for nid, idx, ev, states in res.at(lambda ev: ev.kind == 'member' and ev.e['name'] == fld and 'ObjectCacheV2' in ev.e.get('field', '')):
                n += 1
                b = ev.path(ev.e['base'])
                lp = (b + '->maplock') if ev.e['arrow'] else (b + '.maplock')
                key = '%s.K3:%s:%s' % (P, f.nname, fld)
                bad = [st for st in states if not an.has_lock(st, lp)]
                (R.violated if bad else R.held)(P + '.K3', key, f.id, ev.loc(), '%s accessed %s %s' % (ev.show(), 'WITHOUT' if bad else 'under', lp))
        if n < 3:
            R.broken.append('C19.K3: expected >= 3 accesses of ObjectCacheV2::%s, found %d' % (fld, n))
    for f in fs:
        if f.nname.endswith('::__expire'):
            G = K.build_f(R, prog, f)
            res = an.run(G, [an.LockTracker(), an.GuardTracker(lambda k: True)])
            K.check_at(R, P + '.K6', G, res, lambda ev: ev.kind == 'call' and (ev.callee() or '').endswith('::erase') and (ev.recv_path() or '').endswith('map'),
                       require=lambda st, ev: any(re.match(r'^G:\w+->rc(\.load\(.*\))?=F$', x) for x in st) and an.has_lock(st, 'this->maplock'),
                       key_fn=lambda ev: P + '.K6:ObjectCacheV2::__expire:erase-only-unreferenced', describe=lambda ev: 'a box is erased only with rc == 0 under maplock', min_sites=1)
        if f.nname.endswith('::Borrow::~Borrow') or (f.nname.endswith('::Borrow::operator=')):
            G = K.build_f(R, prog, f)
            rel = lambda ev: ev.kind == 'call' and (ev.callee() or '').endswith('::Box::release')
            res = an.run(G, [an.LockTracker(), an.GuardTracker(lambda k: True), an.SeenTracker([('released', rel)])])
            K.check_at(R, P + '.K6', G, res, lambda ev: ev.kind == 'call' and (ev.callee() or '').endswith('::push_back') and 'lru_list' in (ev.recv_path() or ''),
                       require=lambda st, ev: 'S:released' in st and any(re.match(r'^G:this->_box->rc(\.load\(.*\))?=F$', x) for x in st),
                       key_fn=lambda ev, f=f: '%s.K6:%s:requeue-only-after-last-release' % (P, f.nname.replace('ObjectCacheV2::', 'V2::')),
                       describe=lambda ev: 'the box returns to the LRU list only after this borrow released it and rc is 0', min_sites=1)
        if f.nname.endswith('::borrow') and 'Ctor' not in f.sig and len(f.j['params']) == 3:
            G = K.build_f(R, prog, f)
            cname = f.decls[f.j['params'][1]]['name']
            res = an.run(G, [an.LockTracker(), an.GuardTracker(lambda k: True)])
            K.check_at(R, P + '.K2', G, res, lambda ev: ev.kind == 'call' and ev.e.get('op') == '()' and (ev.recv_path() or '') == cname,
                       require=lambda st, ev, f=f: any(an.has_lock(st, bx + '.createlock') for bx in K.locals_assigned_from_call(f, r'::__find_or_create_box$')) and
                       any(('G:%s=F' % r) in st for r in K.locals_assigned_from_call(f, r'::Box::reader$')),
                       key_fn=lambda ev: P + '.K2:ObjectCacheV2::borrow:construct-under-create-lock',
                       describe=lambda ev: 'the constructor runs only under the per-box create lock and only while no object exists', min_sites=1, what='ctor()')
        if f.nname.endswith('::__find_or_create_box'):
            G = K.build_f(R, prog, f)
            res = an.run(G, [an.LockTracker(), an.SeenTracker([('popped', lambda ev: ev.kind == 'call' and (ev.callee() or '').endswith('::pop') and 'lru_list' in (ev.recv_path() or ''))])])
            K.check_at(R, P + '.K13', G, res, lambda ev: ev.kind == 'call' and (ev.callee() or '').endswith('::Box::acquire'),
                       require=lambda st, ev: 'S:popped' in st and an.has_lock(st, 'this->maplock'),
                       key_fn=lambda ev: P + '.K13:ObjectCacheV2::__find_or_create_box:reference-removes-from-lru',
                       describe=lambda ev: 'a reference is taken in the same critical section that removes the box from the LRU list', min_sites=1)


def v2_box(R, prog):
    """ObjectCacheV2::Box: (a) the shared_ptr slot `ref` is read and written concurrently without a common lock (borrow vs. a recycling
    release / update / expire), so every access goes through the std::atomic_* shared_ptr functions; (b) both acquire() and release()
    stamp the box with the current time - the reclaimer measures the lifespan from the LAST use."""
    boxes = [f for f in prog.funcs.values() if re.search(r'^ObjectCacheV2<.*>::Box$', f.rec or '') or (f.rec or '').endswith('ObjectCacheV2::Box')]
    meths = [f for f in boxes if f.kind == 'method' and f.blocks]
    R.require(len(meths) >= 4, 'C19: ObjectCacheV2::Box methods not found (%d)' % len(meths))
    seen = set()
    for f in sorted(meths, key=lambda f: f.line):
        nm = f.nname.split('::')[-1]
        if nm in seen:
            continue
        seen.add(nm)
        refs = [i for i, e in enumerate(f.exprs) if e['k'] == 'member' and e.get('name') == 'ref']
        if refs:
            covered = set()
            for i, e in enumerate(f.exprs):
                if e['k'] == 'call' and (e.get('fn') or '').startswith('std::atomic_'):
                    covered |= set(f.subtree(i))
            bad = [i for i in refs if i not in covered]
            key = '%s.K1:ObjectCacheV2::Box::%s:shared_ptr-slot-only-through-atomic-functions' % (P, nm)
            (R.violated if bad else R.held)(P + '.K1', key, f.id, f.locl(f.exprs[(bad or refs)[0]]['loc']),
                                             'the slot `ref` is %s' % ('accessed directly (torn/stale shared_ptr copy under a concurrent exchange)' if bad else 'only passed to std::atomic_load/atomic_exchange'))
        if nm in ('acquire', 'release'):
            G = K.build_f(R, prog, f)
            nows = K.locals_defined_only_by(f, r'^photon::now$') | {'photon::now'}
            stamp = lambda ev, nows=nows: ev.kind == 'binop' and ev.e['op'] == '=' and (ev.path(ev.e['l']) or '').endswith('timestamp') and (ev.path(ev.e['r']) or ev.show(ev.e['r'])) in nows
            res = an.run(G, [an.SeenTracker([('stamped', stamp)])])
            K.check_at(R, P + '.K7', G, res, lambda ev: ev.kind == 'exit', require=lambda st, ev: 'S:stamped' in st,
                       key_fn=lambda ev, nm=nm: '%s.K7:ObjectCacheV2::Box::%s:stamps-the-time-of-use' % (P, nm),
                       describe=lambda ev: 'timestamp = photon::now on every path (lifespan is measured from the last acquire/release)', min_sites=1, what='exit')


def run(R, prog, tier):
    R.guard(v2_box, R, prog)
    R.guard(base, R, prog)
    R.guard(v2, R, prog)
