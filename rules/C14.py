"""C14 — iovector (bounds clause only, DESIGN.md §5 C14)."""
import re
from sa.facts import AnalysisBroken, strip_targs
from sa import analysis as an
from sa import rules as K
from rules import common as C

UNITS = ['common/iovector.cpp']
FLOOR = 25
P = 'C14'
CLAIM = ('Decides for common/iovector.{h,cpp}: (1) the bounds clause - copy lengths and output indices are bounded by both sides: the '
         'pipe/memcpy step is min(size, dest.len, src.len); every callback of do_extract_front/back receives either the whole front/back '
         'element or `bytes` under bytes <= its length, and front()/back() are read only while the view is non-empty; the sub-vector '
         'extractors and slice() store into the output array only below its capacity; an output element of slice() gets the requested '
         'count as its length only as a shrink of its source-derived length (it never extends past the source element); the contiguous '
         'extractors return a pointer only when the element is long enough and gather-copy only when the vector holds enough bytes and '
         'the buffer was allocated; element 0 is read only from a non-empty view; (2) conservation on refusal - do_extract_front/back '
         'remove bytes from the vector only after the (fallible) callback accepted them. Equality with the flat-byte model (counts, '
         'contents, remaining bytes) is otherwise NOT decided.')


def iterator_pairing(R, prog):
    """K13: iov_iterator walks (pointer, remaining-count): every step of the element pointer is paid for by one decrement of the
    remaining count - otherwise the iterator believes the vector is longer than it is and reads iovec entries outside the view."""
    f = prog.find('iov_iterator::operator+=')
    G = K.build_f(R, prog, f)
    ptrs = [fd for fd in ('_iov',)]
    adv = lambda ev: ev.kind == 'unop' and ev.e['op'] in ('++',) and (ev.path(ev.e['sub']) or '') == 'this->_iov'
    dec = lambda ev: (ev.kind == 'unop' and ev.e['op'] == '--' and (ev.path(ev.e['sub']) or '') == 'this->_iovcnt') or \
        (ev.kind == 'binop' and ev.e['op'] == '-=' and (ev.path(ev.e['l']) or '') == 'this->_iovcnt')
    res = an.run(G, [an.SeenTracker([('paid', dec), ('adv', adv, ('paid',))])])
    K.check_at(R, P + '.K13', G, res, adv, require=lambda st, ev: 'S:paid' in st,
               key_fn=lambda ev: P + '.K13:iov_iterator::operator+=:pointer-step-paid-by-count-decrement',
               describe=lambda ev: 'each ++_iov follows its own --_iovcnt (one decrement per element stepped over)', min_sites=1, what='++_iov')


def byte_totals_are_size_t(R, prog):
    """K11 (types): a total of element lengths is accumulated in size_t; an int accumulator wraps at 2 GiB."""
    f = prog.find('iovector_view::sum')
    WIDE = ('size_t', 'unsigned long', 'uint64_t', 'unsigned long long', 'std::size_t')
    bad = []
    n = 0
    for i, e in enumerate(f.exprs):
        if e['k'] == 'binop' and e['op'] == '+=' and 'iov_len' in f.show(e['r']):
            l = f.x(f.skip(e['l']))
            n += 1
            if l is not None and l['k'] == 'ref' and f.decls[l['decl']].get('type') not in WIDE:
                bad.append('accumulator %s has type %s' % (l['name'], f.decls[l['decl']].get('type')))
        if e['k'] == 'call' and strip_targs(e.get('fn') or '').endswith('accumulate'):
            n += 1
            if (e.get('ty') or '') not in WIDE:
                bad.append('std::accumulate computes in %s' % e.get('ty'))
    key = P + '.K11:iovector_view::sum:total-accumulated-in-size_t'
    if n == 0:
        R.broken.append('C14.K11: iovector_view::sum no longer accumulates element lengths in a recognisable way')
    else:
        (R.violated if bad else R.held)(P + '.K11', key, f.id, '%s:%d' % (f.file, f.line), '; '.join(bad) if bad else 'element lengths are summed in a 64-bit unsigned accumulator')


def run(R, prog, tier):
    R.guard(iterator_pairing, R, prog)
    R.guard(byte_totals_are_size_t, R, prog)
    R.guard(copy, R, prog)
    R.guard(extract, R, prog)
    R.guard(misc, R, prog)


def copy(R, prog):
    fs = prog.find('_copy_pipe_iov', all=True)
    R.require(len(fs) >= 3, 'C14: expected 3 instantiations of _copy_pipe_iov, found %d' % len(fs))
    for n, f in enumerate(fs):
        G = K.build_f(R, prog, f)
        res = an.run(G, [an.GuardTracker(lambda k: True)])
        size = f.decls[f.j['params'][2]]['name']

        def ok(st, ev, f=f, size=size):
            a = f.x(f.skip(ev.e['args'][2]))
            if a is None or a['k'] != 'ref':
                return False
            vi = f.value_init(a['decl'])
            sh = f.show(vi) if vi is not None and vi >= 0 else ''
            return re.match(r'^min\(%s, \w+\.iov_len, \w+\.iov_len\)$' % re.escape(size), sh) is not None and \
                (('G:%s.empty()=F' % K.param(f, 0)) in st) and (('G:%s.empty()=F' % K.param(f, 1)) in st)
        K.check_at(R, P + '.K11', G, res, lambda ev: ev.kind == 'call' and ev.callee() == 'memcpy', ok,
                   key_fn=lambda ev, n=n: '%s.K11:_copy_pipe_iov#%d:step-bounded-by-both-sides' % (P, n),
                   describe=lambda ev: 'memcpy length = min(size, dest.front().iov_len, src.front().iov_len) with both sides non-empty', min_sites=1, what='memcpy')
    f = prog.find('min', sig='size_t, size_t, size_t')
    ok = sum(1 for e in f.exprs if e['k'] == 'call' and strip_targs(e.get('fn') or '') == 'std::min') >= 2
    (R.held if ok else R.violated)(P + '.K11', P + '.K11:min(a,b,c):is-minimum', f.id, '%s:%d' % (f.file, f.line), 'three-way min is two nested std::min')


def extract(R, prog):
    for nm in ('do_extract_front', 'do_extract_back'):
        fs = prog.find('ioview::' + nm, all=True)
        R.require(len(fs) >= 3, 'C14: expected 3 instantiations of ioview::%s' % nm)
        acc = 'front' if 'front' in nm else 'back'
        for n, f in enumerate(fs):
            G = K.build_f(R, prog, f)
            res = an.run(G, [an.GuardTracker(lambda k: True)])
            cbn = f.decls[f.j['params'][1]]['name']
            by = f.decls[f.j['params'][0]]['name']
            K.check_at(R, P + '.K6', G, res, lambda ev, acc=acc: ev.kind == 'call' and (ev.callee() or '').endswith('::' + acc) and ev.recv_path() == 'this',
                       require=lambda st, ev: 'G:this->empty()=F' in st,
                       key_fn=lambda ev, nm=nm, n=n: '%s.K6:ioview::%s#%d:element-read-only-if-non-empty' % (P, nm, n),
                       describe=lambda ev: 'front()/back() only while the view is non-empty', min_sites=1, what='front()/back()')

            def okcb(st, ev, by=by):
                ln = ev.arg_show(1)
                if re.match(r'^[\w\.\(\)>\-]+\.iov_len$', ln or ''):
                    return True
                return ln == by and any(re.match(r'^G:%s <= [\w\.\(\)>\-]+\.iov_len=T$' % re.escape(by), k) for k in st)
            consume = lambda ev, acc=acc: (ev.kind == 'call' and (ev.callee() or '').endswith('::pop_' + acc) and ev.recv_path() == 'this') or \
                (ev.kind == 'binop' and ev.e['op'] == '-=' and (ev.path(ev.e['l']) or '').endswith('.iov_len'))
            K.check_at(R, P + '.K8', G, res, consume,
                       require=lambda st, ev, cbn=cbn: any(k.startswith('G:%s(' % cbn) and k.endswith(') < 0=F') for k in st),
                       key_fn=lambda ev, nm=nm, n=n: '%s.K8:ioview::%s#%d:consume-only-after-callback-accepted' % (P, nm, n),
                       describe=lambda ev: 'bytes leave the vector (pop / iov_len -=) only after the callback took them: a refused element stays in the vector', min_sites=2, what='pop/shrink')
            K.check_at(R, P + '.K6', G, res, lambda ev, cbn=cbn: ev.kind == 'call' and ev.e.get('op') == '()' and ev.recv_path() == cbn, okcb,
                       key_fn=lambda ev, nm=nm, n=n: '%s.K6:ioview::%s#%d:callback-length-within-element' % (P, nm, n),
                       describe=lambda ev: 'callback length is the element length, or `bytes` under bytes <= element length', min_sites=2, what='cb(ptr, n)')
    # sub-vector extractors: output index below capacity
    f = prog.find('iovector_view::extract_front', sig='iovector_view *')
    lam = prog.lambdas_of(f)
    R.require(len(lam) == 1, 'C14: extract_front(bytes, iovector_view*) callback not found')
    G = K.build_f(R, prog, lam[0])
    res = an.run(G, [an.GuardTracker(lambda k: True)])
    out = K.param(f, 1)                     # (bytes, iov): the output view
    ncap = K.locals_defined_only_by(f, r'^%s->iovcnt$' % re.escape(out))
    CN = K.canon({'iov': out, 'N': (sorted(ncap) or [None])[0]})
    K.check_at(R, P + '.K6', G, res, lambda ev: ev.kind == 'unop' and ev.e['op'] == '++' and CN.s(ev.path(ev.e['sub'])) == 'iov->iovcnt',
               require=lambda st, ev: 'G:iov->iovcnt == N=F' in CN(st),
               key_fn=lambda ev: P + '.K6:iovector_view::extract_front(view):store-below-capacity',
               describe=lambda ev: 'output element stored only while iovcnt != N (capacity captured before the loop)', min_sites=1, what='iov->iov[k] store')
    (R.held if len(ncap) == 1 else R.violated)(P + '.K6', P + '.K6:iovector_view::extract_front(view):capacity-captured', f.id, '%s:%d' % (f.file, f.line), 'N = iov->iovcnt captured before resetting it')
    f = prog.find('iovector_view::extract_back', sig='iovector_view *')
    lam = prog.lambdas_of(f)
    R.require(len(lam) == 1, 'C14: extract_back(bytes, iovector_view*) callback not found')
    G = K.build_f(R, prog, lam[0])
    res = an.run(G, [an.GuardTracker(lambda k: True)])
    out = K.param(f, 1)
    CN = K.canon({'iov': out, 'begin': K.one(K.locals_defined_only_by(f, r'^\(%s->iov \+ \w+\)$' % re.escape(out)), 'output cursor (one past the array end)', f)})
    K.check_at(R, P + '.K6', G, res, lambda ev: ev.kind == 'unop' and ev.e['op'] == '--' and CN.s(ev.path(ev.e['sub'])) == 'begin',
               require=lambda st, ev: 'G:begin == iov->iov=F' in CN(st),
               key_fn=lambda ev: P + '.K6:iovector_view::extract_back(view):store-above-array-start',
               describe=lambda ev: 'output element stored (growing downwards) only while begin != iov->iov', min_sites=1, what='*--begin store')
    # slice
    G = K.build(R, prog, 'iovector_view::slice')
    res = an.run(G, [an.GuardTracker(lambda k: True), an.ConstTracker()])
    f = G.root
    out = K.param(f, 2)                      # (count, offset, iov)
    ptrs = K.locals_defined_only_by(f, r'^%s->iov$' % re.escape(out))
    idx = set(m.group(2) for m in [re.match(r'^(\w+)\[(\w+)\]\.iov_(base|len)$', f.path(e['l']) or '') for e in f.exprs if e['k'] == 'binop' and e['op'] == '='] if m and m.group(1) in ptrs)
    CN = K.canon({'iov': out, 'ptr': K.one(ptrs, 'output array pointer', f), 'cnt': K.one(idx, 'output index', f)})
    st_w = lambda ev: ev.kind == 'binop' and ev.e['op'] == '=' and re.match(r'^ptr\[cnt\]\.iov_(base|len)$', CN.s(ev.path(ev.e['l'])))
    K.check_at(R, P + '.K6', G, res, st_w,
               require=lambda st, ev: ('V:cnt=0' in CN(st) and 'G:iov->iovcnt=T' in CN(st)) or 'G:cnt < iov->iovcnt=T' in CN(st),
               key_fn=lambda ev: P + '.K6:iovector_view::slice:store-below-capacity',
               describe=lambda ev: 'output element stored at index 0 of a non-empty output, or at cnt < iov->iovcnt', min_sites=4, what='ptr[cnt] store')
    pcount = K.param(f, 0)
    shrink = lambda ev: ev.kind == 'binop' and ev.e['op'] == '=' and re.match(r'^ptr\[cnt\]\.iov_len$', CN.s(ev.path(ev.e['l']))) and ev.path(ev.e['r']) == pcount
    K.check_at(R, P + '.K6', G, res, shrink,
               require=lambda st, ev: ('G:%s <= %s=T' % (pcount, ev.path(ev.e['l']))) in st,
               key_fn=lambda ev: P + '.K6:iovector_view::slice:requested-count-only-shrinks-an-output-element',
               describe=lambda ev: 'an output element gets the requested count as its length only if that is <= the length it already has (derived from the source element), so it never extends past the source', min_sites=2, what='ptr[cnt].iov_len = count')
    # contiguous extractors of the view
    for nm, acc in (('extract_front_continuous', 'f'), ('extract_back_continuous', 'b')):
        f = prog.find('iovector_view::' + nm)
        G = K.build_f(R, prog, f)
        by = f.decls[f.j['params'][0]]['name']
        res = an.run(G, [an.GuardTracker(lambda k: True)])
        consume = lambda ev: ev.kind == 'binop' and ev.e['op'] in ('-=', '=') and (ev.path(ev.e['l']) or '').endswith('.iov_len')
        res = an.run(G, [an.GuardTracker(lambda k: True), an.SeenTracker([('consumed', consume)])])
        K.check_at(R, P + '.K6', G, res, consume,
                   require=lambda st, ev, by=by: 'S:consumed' in st or ('G:this->empty()=F' in st and any(re.match(r'^G:[\w\.\(\)>\-]+\.iov_len < %s=F$' % re.escape(by), k) for k in st)),
                   key_fn=lambda ev, nm=nm: '%s.K6:iovector_view::%s:consume-only-if-long-enough' % (P, nm),
                   describe=lambda ev: 'bytes are taken from the element only if the view is non-empty and the element has >= bytes', min_sites=1, what='iov_len -= bytes')
        K.check_at(R, P + '.K6', G, res, lambda ev: ev.kind == 'return' and ev.depth == 0 and ev.f.const(ev.e['sub']) is None,
                   require=lambda st, ev: 'S:consumed' in st,
                   key_fn=lambda ev, nm=nm: '%s.K6:iovector_view::%s:pointer-only-after-consume' % (P, nm),
                   describe=lambda ev: 'a non-null pointer is returned only on the path that consumed the bytes', min_sites=1, what='return ptr')


def misc(R, prog):
    f = prog.find('iov_iterator::iov_iterator', sig='iovector_view')
    G = K.build_f(R, prog, f)
    res = an.run(G, [an.GuardTracker(lambda k: True)])
    K.check_at(R, P + '.K6', G, res, lambda ev: ev.kind == 'index' and ev.f.const(ev.e['idx']) == 0 and 'iov' in (ev.path(ev.e['base']) or ''),
               require=lambda st, ev: any(re.match(r'^G:\w+\.iovcnt <= 0=F$', k) or re.match(r'^G:\w+\.iovcnt=T$', k) or re.match(r'^G:\w+\.empty\(\)=F$', k) for k in st),
               key_fn=lambda ev: P + '.K6:iov_iterator:element0-only-if-non-empty',
               describe=lambda ev: 'iov[0] is read only from a non-empty view', min_sites=1, what='v.iov[0]')
    C.gather_extract(R, prog, P)
