"""C18 — RangeLock (DESIGN.md §5 C18)."""
import re
from sa.facts import AnalysisBroken, strip_targs
from sa import analysis as an
from sa import rules as K
from rules import common as C

UNITS = ['witness/rangelock.cpp', 'thread/thread.cpp']   # thread.cpp only to derive the may-yield set
FLOOR = 20
P = 'C18'
CLAIM = ('Decides for common/range-lock.h: (1) the ordered set is accessed only under the spinlock (its two helpers only from call sites that '
         'hold it); (2) a range is inserted only on the no-conflict edge of the overlap test computed from lower_bound of that same range, '
         'with that iterator as the hint; an in-place adjustment only after both neighbour tests failed; erase-by-range only removes ranges '
         'contained in the request; (3) erasing a range notifies its waiters (~Range); a conflicting caller waits on the conflicting range\'s '
         'condition variable with the spinlock as the released lock, holds it, and reports failure without inserting; lock() retries until a '
         'handle is obtained; ScopedRangeLock releases what it acquired.')
IDX = 'RangeLock::m_index'


def run(R, prog, tier):
    R.guard(rules, R, prog)
    R.guard(C.no_yield_under_spinlock, R, prog, P, files=('common/range-lock.h',), min_sites=2, include_inline_members=True)


def rules(R, prog):
    funcs = [f for f in prog.in_file('common/range-lock.h') if (f.rec or '') == 'RangeLock']
    helpers = {'RangeLock::next_offset', 'RangeLock::prev_end'}
    K.k3_field_guarded(R, P + '.K3', prog, [f for f in funcs if f.nname not in helpers], IDX, lambda base, ev: 'this->m_lock', min_sites=10)
    for h in helpers:
        f = prog.find(h)
        G = K.build_f(R, prog, f)
        res = an.run(G, [an.LockTracker()], init=frozenset(['L:this->m_lock']))
        R.exception(P + '.K3', h, 'helper analysed under its contract (m_lock held); verified at its call sites')
        n = 0
        for g in K.callers_of(prog, h, funcs):
            GG = K.build_f(R, prog, g)
            rr = an.run(GG, [an.LockTracker()])
            n += K.k2_requires_lock(R, P + '.K2', GG, rr, h, lock_of=lambda ev: 'this->m_lock', min_sites=1)
        if n < 1:
            R.broken.append('C18.K2: no call site of %s' % h)
    emplace = lambda ev: ev.kind == 'call' and (ev.callee() or '').endswith('::emplace_hint') and 'm_index' in (ev.recv_path() or '')
    waited = lambda ev: ev.kind == 'call' and ev.callee() == 'photon::condition_variable::wait'
    for fn in ('RangeLock::try_lock_wait', 'RangeLock::try_lock_wait2'):
        G = K.build(R, prog, fn)
        f = G.root
        lb = K.local_names_init_by(f, lambda e, i: e['k'] == 'call' and strip_targs(e.get('fn') or '').endswith('::lower_bound') and 'm_index' in f.show(i))
        rname = K.local_names_init_by(f, lambda e, i: e['k'] == 'construct' and strip_targs(e.get('fn') or '').endswith('range_t::range_t'))
        R.require(lb and rname, 'C18: %s no longer computes lower_bound of the requested range' % fn)
        res = an.run(G, [an.LockTracker(), an.GuardTracker(lambda k: True), an.SeenTracker([('waited', waited), ('inserted', emplace)])])

        def no_conflict(st, ev, lb=lb, rname=rname):
            it = ev.arg_show(0)
            r = ev.arg_show(1)
            if it not in lb or r not in rname:
                return False
            # lower_bound was computed for the same range
            init = None
            for e in ev.f.exprs:
                if e['k'] == 'declstmt':
                    for v in e['vars']:
                        if ev.f.decls[v['decl']]['name'] == it:
                            init = v['init']
            if init is None or r not in ev.f.show(init):
                return False
            a = ('G:%s == this->m_index.end()=T' % it) in st
            b = any(re.match(r'^G:%s->offset < %s\.end\(\)=F$' % (re.escape(it), re.escape(r)), x) for x in st)
            return (a or b) and an.has_lock(st, 'this->m_lock') and 'S:waited' not in st
        K.check_at(R, P + '.K6', G, res, emplace, no_conflict,
                   key_fn=lambda ev, fn=fn: '%s.K6:%s:insert-only-without-conflict' % (P, fn),
                   describe=lambda ev: 'range inserted only when lower_bound(r) is end() or starts at/after r.end(), hinting with that iterator, under the lock',
                   min_sites=1, what='emplace_hint')
        K.check_at(R, P + '.K2', G, res, waited,
                   require=lambda st, ev: an.has_lock(st, 'this->m_lock') and ev.arg_path(0) in ('this->m_lock', '&this->m_lock') and
                   any(re.match(r'^G:(\w+) == this->m_index\.end\(\)=F$', x) and (ev.recv_path() or '') == re.match(r'^G:(\w+) == ', x).group(1) + '->cond' for x in st),
                   key_fn=lambda ev, fn=fn: '%s.K2:%s:wait-on-conflicting-range' % (P, fn),
                   describe=lambda ev: 'the caller waits on the conflicting range\'s condvar, releasing m_lock atomically', min_sites=1, what='cond.wait')
        K.check_at(R, P + '.K6', G, res, lambda ev: ev.kind == 'return' and ev.depth == 0,
                   require=lambda st, ev: ('S:waited' in st) != ('S:inserted' in st) and
                   ((ev.f.const(ev.e['sub']) in (-1, 0) and ('S:inserted' in st) == (ev.f.const(ev.e['sub']) == 0)) if fn.endswith('try_lock_wait') else
                    (('S:waited' in st) == (ev.f.const(ev.e['sub']) == 0))),
                   key_fn=lambda ev, fn=fn: '%s.K6:%s:result-matches-action' % (P, fn),
                   describe=lambda ev: 'success is reported iff the range was inserted; failure iff the caller waited', min_sites=2, what='returns')
    # lock(): retry until a handle
    G = K.build(R, prog, 'RangeLock::lock')
    res = an.run(G, [an.GuardTracker(lambda k: True)])
    K.check_at(R, P + '.K6', G, res, lambda ev: ev.kind == 'return' and ev.depth == 0,
               require=lambda st, ev: ('G:%s=T' % ev.show(ev.e['sub'])) in st,
               key_fn=lambda ev: P + '.K6:RangeLock::lock:returns-only-a-handle', describe=lambda ev: 'lock() returns only a non-null handle', min_sites=1)
    # adjust_range
    G = K.build(R, prog, 'RangeLock::adjust_range')
    wr = lambda ev: ev.kind == 'binop' and ev.e['op'] == '=' and re.search(r'->(offset|length)$', ev.path(ev.e['l']) or '')
    res = an.run(G, [an.LockTracker(), an.GuardTracker(lambda k: True), an.SeenTracker([('written', wr)])])

    def left_safe(st):
        return any(re.match(r'^G:\w+\.offset < \w+->offset=F$', x) or re.match(r'^G:\w+\.offset < this->prev_end\(\w+\)=F$', x) or ('prev_end(' in x and '&&' in x and x.endswith('=F')) for x in st)

    def right_safe(st):
        return any(re.match(r'^G:\w+\.end\(\) <= \w+->end\(\)=T$', x) or re.match(r'^G:\w+\.end\(\) <= this->next_offset\(\w+\)=T$', x) or ('next_offset(' in x and '&&' in x and x.endswith('=F')) for x in st)
    K.check_at(R, P + '.K6', G, res, wr,
               require=lambda st, ev: an.has_lock(st, 'this->m_lock') and ('S:written' in st or (left_safe(st) and right_safe(st))),
               key_fn=lambda ev: P + '.K6:RangeLock::adjust_range:neighbour-tests-before-write',
               describe=lambda ev: 'held range rewritten in place only when each side either does not grow or stays clear of the neighbour (prev_end / next_offset)', min_sites=2, what='range write')
    # unlock(offset,length)
    G = K.build(R, prog, 'RangeLock::unlock', sig='uint64_t, uint64_t')
    res = an.run(G, [an.LockTracker(), an.GuardTracker(lambda k: True)])
    K.check_at(R, P + '.K6', G, res, lambda ev: ev.kind == 'call' and (ev.callee() or '').endswith('::erase') and 'm_index' in (ev.recv_path() or ''),
               require=lambda st, ev: any(re.match(r'^G:\w+\.contains\(.*\)=T$', x) for x in st) and an.has_lock(st, 'this->m_lock'),
               key_fn=lambda ev: P + '.K6:RangeLock::unlock(off,len):erase-only-contained', describe=lambda ev: 'only ranges contained in the request are erased', min_sites=1)
    # ... and the whole requested range is visited: the scan ends only at the end of the index or at the first range beyond r
    K.check_at(R, P + '.K7', G, res, lambda ev: ev.kind == 'exit',
               require=lambda st, ev: any(re.match(r'^G:\w+ == this->m_index\.end\(\)=T$', x) for x in st) or
               any(re.match(r'^G:\w+->offset < \w+\.end\(\)=F$', x) for x in st),
               key_fn=lambda ev: P + '.K7:RangeLock::unlock(off,len):scan-covers-the-whole-range',
               describe=lambda ev: 'unlock(offset, length) leaves its scan only at the end of the index or at the first range starting at/after the end of the request (every contained piece is released and its waiters notified)', min_sites=1, what='exit')
    # all range ends go through the saturating end(): a raw offset + length wraps for ranges reaching the top of the 64-bit space
    n = 0
    for g in [g for g in prog.in_file('common/range-lock.h') if (g.rec or '').split('::')[-1] in ('range_t', 'Range', 'RangeLock')]:
        for i, e in enumerate(g.exprs):
            if e['k'] == 'binop' and e['op'] == '+':
                sides = sorted(((g.path(e['l']) or '').split('.')[-1].split('>')[-1], (g.path(e['r']) or '').split('.')[-1].split('>')[-1]))
                if sides == ['length', 'offset']:
                    R.violated(P + '.K9', '%s.K9:%s:range-end-only-through-saturating-end()' % (P, g.nname), g.id, g.locl(e['loc']),
                               'raw %s wraps at 2^64; ranges are compared through end() = sat_add(offset, length)' % g.show(i))
        n += 1
    fe = prog.find('RangeLock::range_t::end', required=False) or prog.find('range_t::end', required=False)
    ends = [g for g in prog.in_file('common/range-lock.h') if g.nname.endswith('range_t::end')]
    R.require(len(ends) >= 1, 'C18: range_t::end() not found')
    ok = any(e['k'] == 'call' and strip_targs(e.get('fn') or '').endswith('sat_add') for e in ends[0].exprs)
    (R.held if ok else R.violated)(P + '.K9', P + '.K9:range_t::end:saturating', ends[0].id, '%s:%d' % (ends[0].file, ends[0].line), 'end() = sat_add(offset, length)')
    # ~Range notifies
    f = prog.find('RangeLock::Range::~Range')
    ok = any(e['k'] == 'call' and strip_targs(e.get('fn') or '') == 'photon::condition_variable::notify_all' and (f.path(e['recv']) or '').endswith('cond') for e in f.exprs)
    (R.held if ok else R.violated)(P + '.K8', P + '.K8:RangeLock::Range::~Range:notify-waiters', f.id, '%s:%d' % (f.file, f.line),
                                    'erasing a range wakes all threads waiting on it' if ok else '~Range no longer notifies the waiters of the range')
    # ScopedRangeLock
    c = prog.find('ScopedRangeLock::ScopedRangeLock')
    d = prog.find('ScopedRangeLock::~ScopedRangeLock')
    okc = any(e['k'] == 'binop' and e['op'] == '=' and (c.path(e['l']) or '').endswith('_h') and 'lock(' in c.show(e['r']) for e in c.exprs)
    okd = any(e['k'] == 'call' and strip_targs(e.get('fn') or '') == 'RangeLock::unlock' and (d.path(e['args'][0]) or '').endswith('_h') for e in d.exprs)
    (R.held if okc and okd else R.violated)(P + '.K4', P + '.K4:ScopedRangeLock:acquire-release-pair', c.id, '%s:%d' % (c.file, c.line),
                                            'constructor stores the handle of lock(), destructor unlocks that handle')
