# setup: build the fact extractor (offline; clang 14 / llvm-14 libraries on disk)
CXX = clang++
LLVM_CXXFLAGS := $(shell llvm-config-14 --cxxflags)
all: bin/photon-sa
bin/photon-sa: sa/photon-sa.cc
	@mkdir -p bin
	$(CXX) $(LLVM_CXXFLAGS) -fno-rtti -O1 sa/photon-sa.cc -o bin/photon-sa /usr/lib/llvm-14/lib/libclang-cpp.so.14 /usr/lib/llvm-14/lib/libLLVM-14.so
clean:
	rm -rf bin out
