#!/usr/bin/env python3
"""Rewrite the table between <!-- SEEDTABLE --> markers in DESIGN.md from seeded/*/meta.json and seeded/RESULTS.txt."""
import json, os, re
HERE = os.path.dirname(os.path.dirname(os.path.abspath(__file__)))
res = {}
if os.path.exists(HERE + '/seeded/RESULTS.txt'):
    for l in open(HERE + '/seeded/RESULTS.txt'):
        f = l.split()
        if len(f) >= 4:
            m = re.search(r'violated: (\S+)', l)
            res.setdefault(f[0], []).append('%s %s%s' % (f[1], f[3], (' `' + m.group(1) + '`') if m else ''))
rows = ['| seed | what the change does (agent\'s own words, abridged) | needs, to manifest | first run | now |', '|---|---|---|---|---|']
n = blind = still = 0
for d in sorted(os.listdir(HERE + '/seeded')):
    mp = HERE + '/seeded/%s/meta.json' % d
    if not os.path.exists(mp):
        continue
    m = json.load(open(mp))
    title = ''
    np_ = HERE + '/seeded/%s/notes.md' % d
    if os.path.exists(np_):
        title = open(np_).readline().strip().lstrip('# ').replace('|', '/')
    fr = m.get('first_run', '?')
    n += 1
    blind += fr.startswith('detected')
    still += bool(m.get('still_missed'))
    rows.append('| %s | %s | %s | %s | %s |' % (d, title[:140], m.get('needs_to_manifest', '').replace('|', '/')[:160], fr, '; '.join(res.get(d, ['?']))))
p = HERE + '/DESIGN.md'
s = open(p).read()
tab = '<!-- SEEDTABLE -->\n' + '\n'.join(rows) + '\n<!-- /SEEDTABLE -->'
if '<!-- SEEDTABLE -->' in s:
    s = re.sub(r'<!-- SEEDTABLE -->.*?<!-- /SEEDTABLE -->', lambda _: tab, s, flags=re.S)
else:
    s = s.replace('SEEDTABLE', tab, 1)
s = re.sub(r'Blind detection at first run: .*? of \S+\.', 'Blind detection at first run: %d of %d.' % (blind, n), s)
open(p, 'w').write(s)
s2 = open(p).read()
s2 = re.sub(r'Still missed today: \d+\.', 'Still missed today: %d.' % still, s2)
open(p, 'w').write(s2)
print('seeds', n, 'blind', blind, 'still missed', still)
