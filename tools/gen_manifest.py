#!/usr/bin/env python3
"""Regenerate MANIFEST.json from the rule modules that exist (rules/Cxx.py with CLAIM/TECHNIQUE)."""
import importlib, json, os, sys
HERE = os.path.dirname(os.path.dirname(os.path.abspath(__file__)))
sys.path.insert(0, HERE)
NA = {
 'C15': 'Range split is pure arithmetic over (offset, length, interval): tiling, adjacency and the boundary cases are decided by values of /, %, +, not by the shape of the code; no lock/pairing/ordering/guard clause exists whose violation is what breaks it, and the only structural handles are frozen-text matches. Enumerating inputs (at run time or in static_assert) is execution, a different technique family. See DESIGN.md §7.',
}
PENDING = 'check not built yet in this round (design in DESIGN.md §5); not claimed until its rules run clean on the pinned tree'
props = [json.loads(l) for l in open(os.path.join(HERE, 'properties.jsonl'))]
checks, na, served = [], [], []
for p in props:
    pid = p['id']
    if os.path.exists(os.path.join(HERE, 'rules', pid + '.py')) and pid not in NA:
        m = importlib.import_module('rules.' + pid)
        served.append(pid)
        checks.append({
            'property_id': pid,
            'quick_cmd': './check %s --tier quick' % pid,
            'thorough_cmd': './check %s --tier thorough' % pid,
            'evidence_file': 'evidence/%s.json' % pid,
            'replay_cmd_template': './check %s -v --only {path}' % pid,
            'engine': 'photon-sa + rule engine',
            'level_claimed': {'category': 'other',
                              'text': 'Static decision, on every path of the analysed functions of the current source, of structural clauses that are '
                                      'necessary conditions of the property. ' + m.CLAIM + ' It does not decide the behavioural statement as a whole '
                                      '(no interleaving/input enumeration is performed).',
                              'design_ref': 'DESIGN.md §5 ' + pid},
            'level_note': 'trusted: clang 14 front end and CFG builder, the photon-sa extractor, the hand-confirmed rule tables in rules/%s.py, '
                          'the assembly context switch (runs a deferred callback after the switch), as-built flags (-DNDEBUG, epoll engines only)' % pid,
            'technique': getattr(m, 'TECHNIQUE', 'static analysis: path-sensitive lockset / branch-fact / ordering dataflow over clang CFGs of the current source, atomic memory-order tables, who-may-write indexes'),
        })
    else:
        na.append({'property_id': pid, 'reason': NA.get(pid, PENDING)})
man = {
 'version': 1,
 'setup_cmd': 'make -C /verif -s',
 'hooks': {'guard': 'ALIBABA_PHOTONLIBOS_VERIF', 'enable': 'none: all analysis is external to /repo; no hook is compiled in',
           'baseline_off_cmd': 'ctest --test-dir /repo/_build -j8 --timeout 900', 'source_commits': [], 'add_only': True},
 'engines': [
  {'name': 'photon-sa', 'path': 'sa/photon-sa.cc', 'kind_free_text': 'libTooling fact extractor: per-function event CFG (clang::CFG with implicit/temporary dtors, every sub-expression) + resolved expression table, as JSON', 'serves_properties': served},
  {'name': 'rule engine', 'path': 'sa/', 'kind_free_text': 'python: event graphs with DEFER/lambda splicing and bounded inlining; path-sensitive forward dataflow (lockset, branch-condition facts, constants, seen-events); rule kinds K1..K13; rules/Cxx.py tables', 'serves_properties': served}],
 'checks': checks,
 'not_applicable': na,
 'notes': 'Exit codes: 0 held, 1 VIOLATION (+replay json under out/<id>/), 2 analysis broken (anchor vanished / floor / control). Known findings: known_findings.txt. thorough = quick rules over the wider unit set + checker self-test (mutants/<id>.py: seeded breaks must be reported, benign variants silent) on a scratch copy.'}
json.dump(man, open(os.path.join(HERE, 'MANIFEST.json'), 'w'), indent=1)
print('checks:', served, 'n/a:', [x['property_id'] for x in na])
