#!/usr/bin/env python3
"""Specificity test: rename EVERY local variable and parameter of every analysed function (x -> x_rn) in a scratch
copy of /repo and require the property's check to stay silent (exit 0, same number of instances).  A rule that keys
on the spelling of a local would alarm or lose its anchor here.  Behaviour is unchanged by construction.

usage: tools/rename_fuzz.py C16 [--suffix _rn] [--keep] [--skip name,name]
"""
import argparse, glob, importlib, json, os, re, shutil, subprocess, sys, tempfile
HERE = os.path.dirname(os.path.dirname(os.path.abspath(__file__)))
sys.path.insert(0, HERE)
ID = re.compile(r'^[A-Za-z_]\w*$')
SRC = {}


def main():
    ap = argparse.ArgumentParser()
    ap.add_argument('prop')
    ap.add_argument('--suffix', default='_rn')
    ap.add_argument('--keep', action='store_true')
    ap.add_argument('--skip', default='')
    a = ap.parse_args()
    skip = set(x for x in a.skip.split(',') if x)
    mod = importlib.import_module('rules.' + a.prop)
    base = subprocess.run([HERE + '/check', a.prop], env=dict(os.environ, VERIF_NO_EVIDENCE='1'), stdout=subprocess.PIPE, stderr=subprocess.STDOUT, text=True)
    bsum = [l for l in base.stdout.splitlines() if l.startswith('[' + a.prop + ']')]
    cache = sorted(glob.glob(HERE + '/out/facts/*/'))[-1]
    prop = [json.loads(l) for l in open(HERE + '/properties.jsonl') if json.loads(l)['id'] == a.prop][0]
    anchored = set('/repo/' + x for x in prop['anchors']['files']) | set('/repo/' + u for u in mod.UNITS)
    per_file = {}   # path -> {line -> set(names)}
    nfun = nnames = 0
    for u in mod.UNITS:
        j = json.load(open(os.path.join(cache, u.replace('/', '__') + '.json')))
        files = j['files']
        fields = {}
        for r in j.get('records', []):
            fields[r.get('name')] = set(x.get('name') for x in r.get('fields', []))
        for f in j['functions']:
            path = files[f['loc'][0]]
            if path not in anchored or not f.get('blocks'):
                continue
            names = set()
            for d in f['decls']:
                n = d.get('name') or ''
                if d['kind'] not in ('local', 'param') or not ID.match(n) or n.startswith('__') or n in skip or '...' in (d.get('type') or ''):
                    continue
                if f.get('kind') == 'ctor' and n in fields.get(f.get('rec'), ()):
                    continue
                if files[d['loc'][0]] != path:
                    continue
                try:
                    dline = SRC.setdefault(path, open(path).read().split('\n'))[d['loc'][1] - 1]
                except IndexError:
                    continue
                if re.search(r'\.\.\.\s*%s\b' % re.escape(n), dline) or not re.search(r'(?<![\w.])%s(?!\w)' % re.escape(n), dline):
                    continue        # parameter pack, or a macro-generated declaration
                names.add((n, d['loc'][1]))
            if not names:
                continue
            nfun += 1
            lo, hi = f['loc'][1], f.get('endline', f['loc'][1])
            pf = per_file.setdefault(path, {})
            for n, dl in names:
                if not (lo <= dl <= hi):
                    continue
                nnames += 1
                for ln in range(lo, hi + 1):
                    pf.setdefault(ln, set()).add(n)
    tmp = tempfile.mkdtemp(prefix='verif-rename-')
    try:
        scratch = tmp + '/repo'
        os.makedirs(scratch)
        subprocess.check_call(['rsync', '-a', '--exclude', '_build', '--exclude', '.git', '/repo/', scratch + '/'])
        for path, lines in per_file.items():
            p = scratch + path[len('/repo'):]
            src = open(p).read().split('\n')
            # only rename names whose declaration text is really on a line of the range (not macro-generated)
            for ln, names in lines.items():
                if ln - 1 >= len(src):
                    continue
                s = src[ln - 1]
                if s.lstrip().startswith('#'):
                    continue
                for n in sorted(names, key=len, reverse=True):
                    s = re.sub(r'(?<![\w.])(?<!->)(?<!::)(?<!struct )(?<!class )%s(?!\w)' % re.escape(n), n + a.suffix, s)
                src[ln - 1] = s
            open(p, 'w').write('\n'.join(src))
        env = dict(os.environ, VERIF_REPO=scratch, VERIF_OUT=tmp + '/out', VERIF_NO_EVIDENCE='1')
        r = subprocess.run([HERE + '/check', a.prop], env=env, stdout=subprocess.PIPE, stderr=subprocess.STDOUT, text=True)
        rsum = [l for l in r.stdout.splitlines() if l.startswith('[' + a.prop + ']')]
        inst = lambda l: re.search(r'instances=(\d+) held=(\d+) violated=(\d+)', l[0]).groups() if l else None
        ok = r.returncode == 0 and base.returncode == 0 and inst(rsum) == inst(bsum)
        print('rename-fuzz %s: %d functions, %d locals/params renamed; base %s ; renamed rc=%d %s : %s' % (
            a.prop, nfun, nnames, inst(bsum), r.returncode, inst(rsum), 'SILENT' if ok else 'DIFFERS'))
        if not ok:
            for l in r.stdout.splitlines():
                if l.strip().startswith(('violated:', 'ANALYSIS-BROKEN', 'note:')):
                    print('   ', l.strip()[:400 if 'extraction failed' not in l else 6000])
        if a.keep:
            print('kept', tmp)
        return 0 if ok else 1
    finally:
        if not a.keep:
            shutil.rmtree(tmp, ignore_errors=True)


if __name__ == '__main__':
    extra = []
    for attempt in range(12):
        import io, contextlib
        buf = io.StringIO()
        argv = sys.argv[:]
        if extra:
            sys.argv = sys.argv + ['--skip', ','.join(extra)] if '--skip' not in sys.argv else sys.argv
        with contextlib.redirect_stdout(buf):
            rc = main()
        sys.argv = argv
        out = buf.getvalue()
        bad = set()
        if 'extraction failed' in out:
            bad = set(re.findall(r"'(\w+?)_rn'", out)) | set(re.findall(r"undeclared identifier '(\w+)'", out)) | set(re.findall(r"unknown type name '(\w+)'", out))
            bad = set(b[:-3] if b.endswith('_rn') else b for b in bad)
        bad -= set(extra)
        if not bad:
            print(out, end='')
            if extra:
                print('   (names left alone because a textual rename would not compile: %s)' % ','.join(sorted(extra)))
            sys.exit(rc)
        extra += sorted(bad)
    print(out)
    sys.exit(2)
