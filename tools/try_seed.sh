#!/bin/bash
# usage: try_seed.sh <prop> <n> [other-props...] : run the check(s) against /tmp/seed-<prop>/change<n>.diff applied to a scratch copy
p=$1; n=$2; shift 2
t=$(mktemp -d /tmp/verif-try-XXXX); trap "rm -rf $t" EXIT
rsync -a --exclude _build --exclude .git /repo/ $t/repo/
patch -p1 -s -d $t/repo -i /tmp/seed-$p/change$n.diff || { echo PATCH-FAILED; exit 9; }
for q in $p "$@"; do
  VERIF_REPO=$t/repo VERIF_OUT=$t/out VERIF_NO_EVIDENCE=1 /verif/check $q 2>&1 | grep -E "violated:|ANALYSIS-BROKEN|^\[$q\]" | cut -c1-420
  echo "== $q rc=${PIPESTATUS[0]}"
done
