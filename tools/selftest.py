#!/usr/bin/env python3
"""Checker self-test: seeded breaks must be reported (naming the instance), benign variants must be silent.

usage: tools/selftest.py C01 [--only name] [--keep]
Mutants live in mutants/<id>.py as a list MUTANTS of dicts:
  {name, file, old, new, expect (substring of the violated instance key) | benign: True}
Each is applied by exact string replacement to a scratch copy of /repo's sources (outside /repo and /verif,
removed afterwards); ./check runs against the copy through VERIF_REPO. The verdict about /repo never depends on this.
"""
import argparse
import importlib
import os
import shutil
import subprocess
import sys
import tempfile

HERE = os.path.dirname(os.path.dirname(os.path.abspath(__file__)))
sys.path.insert(0, HERE)


def copy_repo(dst):
    subprocess.check_call(['rsync', '-a', '--exclude', '_build', '--exclude', '.git', '/repo/', dst + '/'])


def main():
    ap = argparse.ArgumentParser()
    ap.add_argument('prop')
    ap.add_argument('--only')
    ap.add_argument('--keep', action='store_true')
    a = ap.parse_args()
    mod = importlib.import_module('mutants.' + a.prop)
    tmp = tempfile.mkdtemp(prefix='verif-selftest-')
    ok = True
    results = []
    try:
        scratch = os.path.join(tmp, 'repo')
        os.makedirs(scratch)
        copy_repo(scratch)
        env = dict(os.environ, VERIF_REPO=scratch, VERIF_OUT=os.path.join(tmp, 'out'), VERIF_NO_EVIDENCE='1')
        for m in mod.MUTANTS:
            if a.only and a.only not in m['name']:
                continue
            path = os.path.join(scratch, m['file'])
            src = open(path).read()
            if src.count(m['old']) != 1:
                print('SELFTEST-BROKEN %s: pattern occurs %d times in %s' % (m['name'], src.count(m['old']), m['file']))
                ok = False
                continue
            open(path, 'w').write(src.replace(m['old'], m['new']))
            p = subprocess.run([os.path.join(HERE, 'check'), a.prop], env=env, stdout=subprocess.PIPE, stderr=subprocess.STDOUT, text=True)
            open(path, 'w').write(src)
            out = p.stdout
            if m.get('benign'):
                good = p.returncode == 0
                verdict = 'silent' if good else 'FALSE ALARM (rc=%d)' % p.returncode
            else:
                lines = [l for l in out.splitlines() if l.strip().startswith('violated:')]
                good = p.returncode == 1 and any(m['expect'] in l for l in lines)
                verdict = 'detected' if good else 'MISSED (rc=%d)' % p.returncode
            results.append((m['name'], verdict))
            print('%-8s %-50s %s' % ('benign' if m.get('benign') else 'mutant', m['name'], verdict))
            if not good:
                ok = False
                print('\n'.join('    ' + l for l in out.splitlines()[-8:]))
    finally:
        if not a.keep:
            shutil.rmtree(tmp, ignore_errors=True)
    n_m = len([r for r in results if not r[1].startswith(('silent', 'FALSE'))])
    print('selftest %s: %d mutants, %d benign, %s' % (a.prop, n_m, len(results) - n_m, 'OK' if ok else 'FAILED'))
    return 0 if ok else 1


if __name__ == '__main__':
    sys.exit(main())
