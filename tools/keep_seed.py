#!/usr/bin/env python3
"""keep_seed.py <prop> <n> <needs-text> <detected-by or MISSED> : store a confirmed seeded change under seeded/<prop>-<n>/"""
import json, os, shutil, sys
p, n, needs, det = sys.argv[1:5]
src = '/tmp/seed-%s' % p
dst = '/verif/seeded/%s-%s' % (p, n)
os.makedirs(dst, exist_ok=True)
shutil.copy('%s/change%s.diff' % (src, n), dst + '/patch.diff')
for ext in ('cpp', 'cc'):
    if os.path.exists('%s/demo%s.%s' % (src, n, ext)):
        shutil.copy('%s/demo%s.%s' % (src, n, ext), dst + '/demo.' + ext)
if os.path.exists('%s/notes%s.md' % (src, n)):
    shutil.copy('%s/notes%s.md' % (src, n), dst + '/notes.md')
conf = open('%s/confirm%s.log' % (src, n)).read() if os.path.exists('%s/confirm%s.log' % (src, n)) else ''
lines = [l for l in conf.splitlines() if l.startswith(('DEMO-', 'TEST-'))]
meta = {'property': p, 'breaks': open(dst + '/notes.md').read().split('\n')[0:3] if os.path.exists(dst + '/notes.md') else '',
        'needs_to_manifest': needs,
        'confirmed_by_me': {'how': 'tools/confirm_seed.sh in a scratch worktree: apply, rebuild, run demo (must fail), run related test binaries (must pass), revert, rebuild, run demo (must pass)',
                            'observed': lines},
        'independent': 'written by a sub-agent that saw only the property text and its own worktree',
        'check_result': det}
json.dump(meta, open(dst + '/meta.json', 'w'), indent=1)
print('kept', dst)
