#!/usr/bin/env python3
"""Replay every kept seeded change (seeded/<id>/patch.diff, produced by sub-agents that saw only the property text)
against the current rules: apply to a scratch copy of /repo (outside /repo and /verif, removed afterwards), run the
property's quick check through VERIF_REPO, expect exit 1 with a VIOLATION line.  Writes seeded/RESULTS.txt.

usage: tools/seeds.py [ids...]     (default: all)
"""
import json, os, shutil, subprocess, sys, tempfile
HERE = os.path.dirname(os.path.dirname(os.path.abspath(__file__)))
ids = sys.argv[1:] or sorted(d for d in os.listdir(HERE + '/seeded') if os.path.isdir(HERE + '/seeded/' + d))
tmp = tempfile.mkdtemp(prefix='verif-seeds-')
rows = []
try:
    scratch = tmp + '/repo'
    os.makedirs(scratch)
    subprocess.check_call(['rsync', '-a', '--exclude', '_build', '--exclude', '.git', '/repo/', scratch + '/'])
    env = dict(os.environ, VERIF_REPO=scratch, VERIF_OUT=tmp + '/out', VERIF_NO_EVIDENCE='1')
    for sid in ids:
        d = HERE + '/seeded/' + sid
        prop = sid.split('-')[0]
        meta = json.load(open(d + '/meta.json'))
        props = meta.get('checked_with') or [prop]
        a = subprocess.run(['patch', '-p1', '-s', '-d', scratch, '-i', d + '/patch.diff'], stdout=subprocess.PIPE, stderr=subprocess.STDOUT, text=True)
        if a.returncode != 0:
            rows.append((sid, 'PATCH-FAILED', a.stdout.strip()[:100]))
            subprocess.check_call(['rsync', '-a', '--delete', '--exclude', '_build', '--exclude', '.git', '/repo/', scratch + '/'])
            continue
        for pr in props:
            p = subprocess.run([HERE + '/check', pr], env=env, stdout=subprocess.PIPE, stderr=subprocess.STDOUT, text=True)
            v = [l.strip() for l in p.stdout.splitlines() if l.strip().startswith('violated:')]
            det = p.returncode == 1 and v
            verdict = 'DETECTED' if det else ('MISSED-AS-DOCUMENTED' if meta.get('still_missed') and p.returncode == 0 else 'MISSED')
            rows.append((sid, '%s rc=%d %s' % (pr, p.returncode, verdict), (v[0][:160] if v else (meta.get('still_missed', '')[:160]))))
        subprocess.run(['patch', '-p1', '-s', '-R', '-d', scratch, '-i', d + '/patch.diff'])
finally:
    shutil.rmtree(tmp, ignore_errors=True)
out = '\n'.join('%-8s %-24s %s' % r for r in rows)
print(out)
if not sys.argv[1:]:
    open(HERE + '/seeded/RESULTS.txt', 'w').write(out + '\n')
sys.exit(0 if all('DETECTED' in r[1] or 'MISSED-AS-DOCUMENTED' in r[1] for r in rows) else 1)
