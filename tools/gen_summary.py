#!/usr/bin/env python3
"""Refresh the measured numbers in DESIGN.md (summary table of section 5, totals quoted in the Status paragraph and section 4)
from RULES.md, mutants/*.py and seeded/*/meta.json.  Documentation only."""
import glob, importlib, json, os, re, sys
HERE = os.path.dirname(os.path.dirname(os.path.abspath(__file__)))
sys.path.insert(0, HERE)
rules = open(HERE + '/RULES.md').read()
inst = {}
for m in re.finditer(r'`\[(C\d\d)\] .*?units=(\d+) functions=(\d+) graphs=(\d+) instances=(\d+) held=(\d+) violated=(\d+) \(known (\d+)\) wall=([\d.]+)s', rules):
    inst[m.group(1)] = m.groups()[1:]
keys = len(re.findall(r'^\* (held|KNOWN-FINDING|violated) ', rules, re.M))
exc = len(re.findall(r'^\* exception ', rules, re.M))
sites = sum(int(v[3]) for v in inst.values())
mut = {}
for f in sorted(glob.glob(HERE + '/mutants/C*.py')):
    p = os.path.basename(f)[:-3]
    mod = importlib.import_module('mutants.' + p)
    b = sum(1 for m in mod.MUTANTS if m.get('benign'))
    mut[p] = (len(mod.MUTANTS) - b, b)
nm, nb = sum(a for a, b in mut.values()), sum(b for a, b in mut.values())
seeds = len(glob.glob(HERE + '/seeded/*/meta.json'))
p = HERE + '/DESIGN.md'
s = open(p).read()
def row(pid, old):
    u, f, g, i, h, v, k, w = inst[pid]
    cells = [c.strip() for c in old.strip().strip('|').split('|')]
    cells[2] = '%s / %s' % (f, g)
    cells[3] = '%s (%s + %s)' % (i, h, k)
    cells[5] = '%d / %d' % mut[pid]
    return '| ' + ' | '.join(cells) + ' |'
out = []
for line in s.split('\n'):
    m = re.match(r'^\| (C\d\d) \|', line)
    if m and m.group(1) in inst and line.count('|') == 8:
        line = row(m.group(1), line)
    out.append(line)
s = '\n'.join(out)
for pid, v in inst.items():
    s = re.sub(r'(### %s — [^\n]*\n(?:.*?\n)*?\*\*As built\.\*\* )\d+ evaluated instances' % pid, lambda m: m.group(1) + '%s evaluated instances' % v[3], s, count=1)
s = re.sub(r'\(≈ \d+ distinct\s+instance keys, ≈ \d+ sites, \d+ exceptions\)', '(≈ %d distinct\ninstance keys, ≈ %d sites, %d exceptions)' % (keys, sites, exc), s)
s = re.sub(r'; \d+ in total, 8–\d+ per property\)', '; %d in total, %d–%d per property)' % (nm, min(a for a, b in mut.values()), max(a for a, b in mut.values())), s)
s = re.sub(r'\n  \d+ in total\)\. A replacement pattern', '\n  %d in total). A replacement pattern' % nb, s)
s = re.sub(r'\(§12\): \d+ changes written by sub-agents', '(§12): %d changes written by sub-agents' % seeds, s)
open(p, 'w').write(s)
print('keys', keys, 'sites', sites, 'exceptions', exc, 'mutants', nm, 'benign', nb, 'seeds', seeds)
