#!/usr/bin/env python3
"""Specificity test 2: insert blank lines at the top of every anchored source file (all line numbers shift, behaviour
unchanged) and require the check to stay silent with the same instance counts.  usage: tools/shift_fuzz.py C10 [n]"""
import importlib, json, os, re, shutil, subprocess, sys, tempfile
HERE = os.path.dirname(os.path.dirname(os.path.abspath(__file__)))
sys.path.insert(0, HERE)
prop = sys.argv[1]
n = int(sys.argv[2]) if len(sys.argv) > 2 else 7
mod = importlib.import_module('rules.' + prop)
pj = [json.loads(l) for l in open(HERE + '/properties.jsonl') if json.loads(l)['id'] == prop][0]
files = set(pj['anchors']['files']) | set(u for u in mod.UNITS if not u.startswith('witness/'))
base = subprocess.run([HERE + '/check', prop], env=dict(os.environ, VERIF_NO_EVIDENCE='1'), stdout=subprocess.PIPE, stderr=subprocess.STDOUT, text=True)
tmp = tempfile.mkdtemp(prefix='verif-shift-')
try:
    scratch = tmp + '/repo'
    subprocess.check_call(['rsync', '-a', '--exclude', '_build', '--exclude', '.git', '/repo/', scratch + '/'])
    for f in files:
        p = os.path.join(scratch, f)
        if os.path.exists(p):
            open(p, 'w').write('\n' * n + open(os.path.join('/repo', f)).read())
    r = subprocess.run([HERE + '/check', prop], env=dict(os.environ, VERIF_REPO=scratch, VERIF_OUT=tmp + '/out', VERIF_NO_EVIDENCE='1'), stdout=subprocess.PIPE, stderr=subprocess.STDOUT, text=True)
    g = lambda o: (re.search(r'instances=(\d+) held=(\d+) violated=(\d+)', o) or re.search('()', '')).groups()
    ok = r.returncode == base.returncode and g(r.stdout) == g(base.stdout)
    print('shift-fuzz %s: %d files shifted by %d lines; base rc=%d %s ; shifted rc=%d %s : %s' % (prop, len(files), n, base.returncode, g(base.stdout), r.returncode, g(r.stdout), 'SILENT' if ok else 'DIFFERS'))
    if not ok:
        print('\n'.join('    ' + l.strip()[:300] for l in r.stdout.splitlines() if l.strip().startswith(('violated:', 'ANALYSIS-BROKEN'))))
    sys.exit(0 if ok else 1)
finally:
    shutil.rmtree(tmp, ignore_errors=True)
