#!/bin/bash
# usage: seed_prompt.sh C07 /tmp/wt-C07  -> prints the sub-agent prompt (property text only; nothing from /verif's machinery)
id=$1; wt=$2; first=${3:-1}
python3 - "$id" "$wt" "$first" <<'PY'
import json,sys
pid,wt=sys.argv[1],sys.argv[2]
first=int(sys.argv[3]); a,b=first,first+1
import os, glob
avoid=''
if first>1:
    prev=[]
    for d in sorted(glob.glob('/verif/seeded/%s-*/notes.md'%pid)):
        prev.append('  - '+open(d).readline().strip().lstrip('# '))
    avoid='\nEarlier volunteers already delivered the following changes for this property; yours must attack DIFFERENT functions or mechanisms than these:\n'+'\n'.join(prev)+'\n'
p=[json.loads(l) for l in open('/verif/properties.jsonl') if json.loads(l)['id']==pid][0]
print(f"""You are helping to evaluate verification tooling for the C++ library alibaba/PhotonLibOS. Your job is to play the role of a developer who introduces a subtle regression.

You have your own scratch git worktree of the repository at {wt} (a detached checkout of the pinned commit). Work ONLY inside {wt} and a results directory /tmp/seed-{pid}/ (create it). Never touch /repo or /verif, and do not read anything under /verif.

The property that must be BROKEN by your change:

  Title: {p['title']}
  Statement: {p['statement']}
  Quantified over: {p['quantifier']['text']}
  Relevant source files (relative to the repo root): {', '.join(p['anchors']['files'])}

Task: produce TWO independent, different changes to the library source (not to tests) such that each one
  (a) still compiles,
  (b) still passes the existing test suite (the pre-existing tests must still pass — see below how to run them),
  (c) really breaks the property above for SOME input / schedule / interleaving / sequence of operations, and
  (d) needs something specific to manifest: a particular interleaving (e.g. two vCPUs / OS threads, or a timeout racing with a wake-up), a fault at a particular point, a multi-step sequence of operations, an unusual input, or two cooperating sites that each look fine alone. Do NOT make a change that ordinary use would expose at once (the existing tests would catch those anyway).
The two changes should attack different mechanisms (e.g. one a locking/ordering/memory-order mistake, the other a dropped check / wrong condition / missing cleanup on an error path). Make them look like plausible refactorings, optimisations or honest mistakes; keep each small (a few lines).

{avoid}
For each change i in {{{a},{b}}} deliver in /tmp/seed-{pid}/:
  - change<i>.diff : `git diff` of the library change alone (relative to the pinned commit, apply-able with `git apply` at the repo root),
  - demo<i>.cpp (or a gtest file) : a demonstration program that FAILS (wrong result, hang detected by its own watchdog/timeout, crash, assertion) with the change applied and PASSES on the unmodified tree; it should exit non-zero on failure and 0 on success, and must finish within ~60 s either way. If the failure is probabilistic (a race), loop enough that it shows up reliably within that time, and say what the hit rate is,
  - notes<i>.md : what the change is, why it breaks the property, what it needs in order to manifest, the exact commands you used to build and run the demo, and the outputs you observed with and without the change; also confirm which existing tests you ran and that they passed.

Practical information:
  - Build (takes ~3 min on 16 cores the first time, incremental afterwards):
      cd {wt} && cmake -G Ninja -B _build -DCMAKE_BUILD_TYPE=RelWithDebInfo -DPHOTON_BUILD_TESTING=ON -DPHOTON_ENABLE_LIBCURL=ON -DCMAKE_POLICY_VERSION_MINIMUM=3.5 -DCPM_USE_LOCAL_PACKAGES=ON -DFETCHCONTENT_SOURCE_DIR_GOOGLETEST=/usr/src/googletest -DFETCHCONTENT_SOURCE_DIR_GTEST=/usr/src/googletest -DFETCHCONTENT_TRY_FIND_PACKAGE_MODE=ALWAYS -DGTEST=ON -DCMAKE_COMPILE_WARNING_AS_ERROR=OFF && cmake --build _build -j16
    (if {wt}/_build already exists it has been built already: just run `cmake --build _build -j16` after editing).
    There is no network; everything needed is installed. The library is built with -std=c++14 -O2 -DNDEBUG (asserts are compiled out).
  - A demo program can be built against the worktree's library like this:
      g++ -std=c++14 -O1 -DNDEBUG -I{wt}/include demo{a}.cpp -L{wt}/_build/output -lphoton -Wl,-rpath,{wt}/_build/output -lpthread -o demo{a}
    Header-only templates (e.g. thread/go.h, common/lockfree_queue.h, common/range-lock.h, common/expirecontainer.h, rpc/serialize.h) are compiled into the demo itself, so a change there shows up by rebuilding the demo.
  - Existing tests: `ctest --test-dir {wt}/_build -j8 --timeout 900` (4–9 minutes). The list of tests that pass stably on the pinned tree is the "stable_pass" array in /root/.vp/BASELINE.json; the "always_fail" and "flaky" arrays list tests that fail offline anyway — ignore those. Your change must not make any stable test fail. At minimum run the test binaries related to the files you touched several times (they are in {wt}/_build/output/, e.g. test-thread, test-go-channel, test-lockfree, test-rpc, test-ooo, test-objcache, test-fs, cache_test ...), and run the whole suite once per change if time permits.
  - To switch between changes use `git -C {wt} stash` / `git -C {wt} checkout -- .` ; leave the worktree clean (no modifications) when you finish, with both diffs saved in /tmp/seed-{pid}/.

Report back briefly: for each change, one paragraph saying what it is, what it needs to manifest, and the demo's observed behaviour with/without it. If you could only produce one valid change, say so honestly rather than delivering a weak second one.""")
PY
