#!/bin/bash
# usage: confirm_seed.sh <prop> <n> <worktree> "<test binaries...>"
# Confirms a seeded change delivered by a sub-agent in /tmp/seed-<prop>/: it compiles, the named test
# binaries still pass, the demo fails with it and passes without it. Writes /tmp/seed-<prop>/confirm<n>.log
p=$1; n=$2; wt=$3; tests=$4
d=/tmp/seed-$p; log=$d/confirm$n.log
exec >$log 2>&1
set -x
cd $wt || exit 9
git checkout -- . ; git apply $d/change$n.diff || { echo APPLY-FAILED; exit 1; }
cmake --build _build -j12 >/dev/null 2>&1 || { echo BUILD-FAILED; git checkout -- .; exit 1; }
g++ -std=c++14 -O1 -DNDEBUG -I$wt/include $d/demo$n.cpp -L$wt/_build/output -lphoton -Wl,-rpath,$wt/_build/output -lpthread -o $d/demo${n}_mut || { echo DEMO-BUILD-FAILED; }
timeout 120 $d/demo${n}_mut; echo "DEMO-WITH-CHANGE rc=$?"
for t in $tests; do (cd _build/output && timeout 600 ./$t >/dev/null 2>&1; echo "TEST-WITH-CHANGE $t rc=$?"); done
git checkout -- .
cmake --build _build -j12 >/dev/null 2>&1
g++ -std=c++14 -O1 -DNDEBUG -I$wt/include $d/demo$n.cpp -L$wt/_build/output -lphoton -Wl,-rpath,$wt/_build/output -lpthread -o $d/demo${n}_orig
timeout 120 $d/demo${n}_orig; echo "DEMO-WITHOUT-CHANGE rc=$?"
