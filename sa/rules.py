"""Rule-kind helpers (K1..K13 of DESIGN.md) and the per-run report."""
import re
from .facts import AnalysisBroken, strip_targs
from .graph import Graph, ASSIGN_OPS
from . import analysis as an

ORDER_OK = {
    'relaxed': {'relaxed', 'consume', 'acquire', 'release', 'acq_rel', 'seq_cst'},
    'acquire': {'acquire', 'acq_rel', 'seq_cst'},
    'release': {'release', 'acq_rel', 'seq_cst'},
    'acq_rel': {'acq_rel', 'seq_cst'},
    'seq_cst': {'seq_cst'},
}

ATOMIC_WRITE_OPS = {'store', 'exchange', 'fetch_add', 'fetch_sub', 'fetch_or', 'fetch_and', 'fetch_xor',
                    'compare_exchange_strong', 'compare_exchange_weak', 'operator=', 'operator++', 'operator--',
                    'operator+=', 'operator-=', 'operator|=', 'operator&=', 'clear', 'test_and_set'}


class Instance:
    __slots__ = ('rule', 'key', 'fn', 'site', 'status', 'detail', 'nontrivial')

    def __init__(self, rule, key, fn, site, status, detail, nontrivial):
        self.rule, self.key, self.fn, self.site = rule, key, fn, site
        self.status, self.detail, self.nontrivial = status, detail, nontrivial

    def as_json(self):
        return {'rule': self.rule, 'instance': self.key, 'function': self.fn, 'site': self.site,
                'status': self.status, 'detail': self.detail}


class Report:
    def __init__(self, prop):
        self.prop = prop
        self.instances = []
        self.exceptions = []
        self.controls = []
        self.graphs = 0
        self.blocks = 0
        self.functions = set()
        self.notes = []
        self.broken = []

    def guard(self, fn, *args, **kw):
        """run one rule group; a lost anchor there is recorded and the other groups still run"""
        try:
            return fn(*args, **kw)
        except AnalysisBroken as e:
            self.broken.append(str(e))
            return None

    def held(self, rule, key, fn, site, detail='', nontrivial=True):
        self.instances.append(Instance(rule, key, fn, site, 'held', detail, nontrivial))

    def violated(self, rule, key, fn, site, detail=''):
        self.instances.append(Instance(rule, key, fn, site, 'violated', detail, True))

    def exception(self, rule, what, reason):
        self.exceptions.append({'rule': rule, 'what': what, 'reason': reason})

    def control(self, name, fired):
        self.controls.append({'control': name, 'fired': bool(fired)})
        if not fired:
            raise AnalysisBroken('positive control did not fire: %s' % name)

    def require(self, cond, msg):
        if not cond:
            raise AnalysisBroken(msg)

    def count(self, rule_prefix):
        return len([i for i in self.instances if i.rule.startswith(rule_prefix)])


# -----------------------------------------------------------------------------
# event classification helpers
# -----------------------------------------------------------------------------
def atomic_op(ev):
    """(object path, op name, [orders]) if ev is an operation on a std::atomic, else None."""
    if ev.kind != 'call':
        return None
    e = ev.e
    fn = strip_targs(e.get('fn') or '')
    if not (fn.startswith('std::atomic') or fn.startswith('std::__atomic')):
        return None
    short = fn.split('::')[-1]
    if fn in ('std::atomic_thread_fence', 'std::atomic_signal_fence'):
        return ('<fence>', 'fence', ev.f.memory_orders(ev.x))
    if 'recv' not in e:
        return None
    obj = ev.path(e['recv'])
    if e.get('arrow') and obj is not None:
        obj = obj[1:] if obj.startswith('&') else '*' + obj
    orders = ev.f.memory_orders(ev.x)
    if short.startswith('operator'):
        if short.startswith('operator '):   # conversion = load
            return (obj, 'load', ['seq_cst'])
        return (obj, short, ['seq_cst'])
    if not orders and short in ('load', 'store', 'exchange', 'fetch_add', 'fetch_sub', 'fetch_or', 'fetch_and',
                                'fetch_xor', 'compare_exchange_strong', 'compare_exchange_weak', 'test_and_set', 'clear'):
        orders = ['seq_cst']
    return (obj, short, orders)


def is_fence(ev, order='seq_cst'):
    a = atomic_op(ev)
    return a is not None and a[1] == 'fence' and a[2] and a[2][0] in ORDER_OK[order]


def field_access(ev):
    """('read'|'write', field qname, base path, full path) for member events; writes are
    detected at the assignment / inc-dec / atomic-write event instead (see written_field)."""
    if ev.kind == 'member':
        e = ev.e
        if e.get('ismethod'):
            return None
        return ('access', e['field'], ev.path(e['base']), ev.path(ev.x))
    return None


def written_member(ev):
    """(field qname, full path) if ev writes a member field (plain or atomic object)."""
    f = ev.f
    e = ev.e
    if e is None:
        return None
    tgt = None
    if ev.kind == 'binop' and e['op'] in ASSIGN_OPS:
        tgt = e['l']
    elif ev.kind == 'unop' and e['op'] in ('++', '--'):
        tgt = e['sub']
    elif ev.kind == 'call':
        fn = strip_targs(e.get('fn') or '')
        short = fn.split('::')[-1]
        if 'recv' in e and (fn.startswith('std::atomic') or fn.startswith('std::__atomic')) and short in ATOMIC_WRITE_OPS:
            tgt = e['recv']
        elif e.get('ctype') == 'operator' and e.get('op') in ('=', '+=', '-=', '++', '--', '|=', '&=') and 'recv' in e:
            tgt = e['recv']
    if tgt is None:
        return None
    t = f.x(f.skip(tgt))
    # look through array index / deref to the member
    hops = 0
    while t is not None and t['k'] in ('index',) and hops < 4:
        t = f.x(f.skip(t['base']))
        hops += 1
    if t is not None and t['k'] == 'member' and not t.get('ismethod'):
        return (t['field'], f.path(f.skip(tgt), ev.ctx))
    if t is not None and t['k'] == 'ref':
        # reference alias to a member
        al = f.aliases()
        if t['decl'] in al:
            tt = f.x(f.skip(al[t['decl']]))
            if tt is not None and tt['k'] == 'member':
                return (tt['field'], f.path(f.skip(tgt), ev.ctx))
    return None


def calls(G, name=None, short=None, pred=None):
    out = []
    for nid, idx, ev in G.events():
        if ev.kind not in ('call', 'construct'):
            continue
        c = ev.callee()
        if c is None:
            continue
        if name is not None and c != name:
            continue
        if short is not None and c.split('::')[-1] != short:
            continue
        if pred is not None and not pred(ev):
            continue
        out.append((nid, idx, ev))
    return out


def fmt_state(st, prefixes=('L:', 'G:', 'S:', 'LC:', 'LH:', 'V:')):
    return '{' + ', '.join(sorted(x for x in st if x.startswith(prefixes))) + '}'


# -----------------------------------------------------------------------------
# K1 atomic order
# -----------------------------------------------------------------------------
def k1_atomic_order(R, prog, rule, fname, obj_suffix, op, need, sig=None, min_sites=1, which=0, inline=(), value=None):
    """Every `op` on an atomic whose path ends with obj_suffix inside function fname has order >= need.
    `which`: index of the order argument (0 = success order, 1 = failure order of CAS)."""
    fs = prog.find(fname, sig=sig, all=True)
    n = 0
    for f in _dedupe(fs):
        G = Graph(prog, f)
        if inline:
            G.inline(names=inline)
        R.functions.add(f.id)
        for nid, idx, ev in G.events():
            a = atomic_op(ev)
            if not a:
                continue
            obj, o, orders = a
            if obj is None or not _suffix(obj, obj_suffix):
                continue
            if o != op:
                continue
            if value is not None and (not ev.e.get('args') or ev.f.const(ev.e['args'][0]) != value):
                continue            # the rule is about the store of this value only (e.g. the hand-over `true`)
            n += 1
            got = orders[which] if which < len(orders) else (orders[0] if orders else '?')
            key = '%s:%s:%s.%s' % (rule, f.nname, obj_suffix, op)
            detail = '%s.%s order=%s need>=%s' % (obj, o, got, need)
            if got in ORDER_OK[need]:
                R.held(rule, key, f.id, ev.loc(), detail, nontrivial=True)
            else:
                R.violated(rule, key, f.id, ev.loc(), detail)
    if n < min_sites:
        raise AnalysisBroken('%s: no atomic `%s` on *%s in %s (anchor vanished)' % (rule, op, obj_suffix, fname))
    return n


def _suffix(path, suf):
    if path == suf:
        return True
    return path.endswith(suf) and (len(path) == len(suf) or not (path[-len(suf) - 1].isalnum() or path[-len(suf) - 1] == '_'))


def _dedupe(fs):
    seen = set()
    out = []
    for f in fs:
        if f.nname + f.sig in seen:
            continue
        seen.add(f.nname + f.sig)
        out.append(f)
    return out


# -----------------------------------------------------------------------------
# generic "at target events, every reaching state satisfies predicate"
# -----------------------------------------------------------------------------
def check_at(R, rule, G, res, target, require, key_fn, describe, min_sites=1, what='', depth0_only=False):
    """target(ev) selects events; require(state, ev) -> bool must hold for every
    state reaching it.  An unreachable target counts as held (vacuous) but is noted."""
    n = 0
    for nid, idx, ev, states in res.at(target):
        if depth0_only and ev.depth != 0:
            continue
        n += 1
        bad = [st for st in states if not require(st, ev)]
        key = key_fn(ev)
        if bad:
            R.violated(rule, key, G.root.id, ev.loc(), '%s; reaching state %s%s' % (
                describe(ev), fmt_state(bad[0]), (' via ' + ev.via) if ev.via else ''))
        else:
            R.held(rule, key, G.root.id, ev.loc(), describe(ev) + (' [unreachable]' if not states else ''), nontrivial=bool(states))
    if n < min_sites:
        # recorded, not raised: the remaining rules of the group still run (a deleted mechanism must
        # surface as the VIOLATION of its must-call rule, not hide behind a floor)
        R.broken.append('%s: expected >= %d site(s) of %s in %s, found %d' % (rule, min_sites, what or 'target', G.root.id, n))
    return n


def build(R, prog, fname, sig=None, inline=(), lambda_args=(), ctx=None, defer=True, max_depth=3, file=None):
    f = prog.find(fname, sig=sig, file=file)
    G = Graph(prog, f, ctx)
    G.inline(names=inline, lambda_args=lambda_args, defer=defer, max_depth=max_depth)
    R.graphs += 1
    R.blocks += len(G.nodes)
    R.functions.add(f.id)
    return G


def build_f(R, prog, f, inline=(), lambda_args=(), ctx=None, defer=True, max_depth=3):
    G = Graph(prog, f, ctx)
    G.inline(names=inline, lambda_args=lambda_args, defer=defer, max_depth=max_depth)
    R.graphs += 1
    R.blocks += len(G.nodes)
    R.functions.add(f.id)
    return G


# -----------------------------------------------------------------------------
# K2 requires-lock at call sites / K3 field guarded by lock
# -----------------------------------------------------------------------------
def k2_requires_lock(R, rule, G, res, callee, lock_of, min_sites=1, allow_cond=False, mode=None):
    """Every call of `callee` in G happens with lock_of(ev) held."""
    def target(ev):
        return ev.kind in ('call', 'construct') and ev.callee() == callee

    def require(st, ev):
        lp = lock_of(ev)
        if lp is None:
            raise AnalysisBroken('%s: cannot canonicalise lock path at %s' % (rule, ev.loc()))
        lps = lp if isinstance(lp, (list, tuple)) else [lp]
        for l in lps:
            if an.has_lock(st, l, mode) or (allow_cond and an.has_cond_lock(st, l)):
                return True
        return False
    return check_at(R, rule, G, res, target, require,
                    key_fn=lambda ev: '%s:%s:call(%s)' % (rule, G.root.nname, callee.split('::')[-1]),
                    describe=lambda ev: 'call %s requires lock %s' % (ev.show()[:80], lock_of(ev)),
                    min_sites=min_sites, what='call of ' + callee)


def k3_field_guarded(R, rule, prog, funcs, field, lock_of, exceptions=None, min_sites=1, inline=(), extra_trackers=(), accept=None, inline_lambda_args=()):
    """Every access to `field` (qualified) in the given functions happens with lock_of(base path) held.
    exceptions: {function nname: reason}."""
    exceptions = exceptions or {}
    n = 0
    for f in funcs:
        uses = [e for e in f.exprs if e['k'] == 'member' and e.get('field') == field]
        if not uses:
            continue
        if f.nname in exceptions or f.name in exceptions:
            R.exception(rule, '%s in %s' % (field, f.nname), exceptions.get(f.nname) or exceptions.get(f.name))
            continue
        if f.kind == 'lambda' and inline_lambda_args:
            continue      # analysed spliced into its parent (lambda passed to a function that runs it under the caller's locks)
        G = build_f(R, prog, f, inline=inline, lambda_args=inline_lambda_args)
        res = an.run(G, [an.LockTracker()] + list(extra_trackers))
        for nid, idx, ev, states in res.at(lambda ev: ev.kind == 'member' and ev.e.get('field') == field):
            n += 1
            base = ev.path(ev.e['base'])
            lp = lock_of(base, ev)
            key = '%s:%s:%s' % (rule, f.nname, field.split('::')[-1])
            if lp is None:
                raise AnalysisBroken('%s: cannot derive lock path for %s at %s' % (rule, field, ev.loc()))
            lps = lp if isinstance(lp, (list, tuple)) else [lp]
            bad = [st for st in states if not any(an.has_lock(st, l) for l in lps) and not (accept and accept(st, ev))]
            if bad:
                R.violated(rule, key, f.id, ev.loc(), 'access to %s without %s; held %s' % (ev.show(), ' | '.join(lps), an.held(bad[0])))
            else:
                R.held(rule, key, f.id, ev.loc(), 'access to %s under %s' % (ev.show(), ' | '.join(lps)), nontrivial=bool(states))
    if n < min_sites:
        R.broken.append('%s: expected >= %d accesses of %s, found %d' % (rule, min_sites, field, n))
    return n


# -----------------------------------------------------------------------------
# K9 who may write / call
# -----------------------------------------------------------------------------
def k9_who_writes(R, rule, prog, field, allowed, min_sites=1, funcs=None):
    """Writes of member `field` occur only in functions whose nname is in `allowed`."""
    n = 0
    for f in (funcs if funcs is not None else prog.funcs.values()):
        if not any(e['k'] == 'member' and e.get('field') == field for e in f.exprs) and \
           not (f.kind == 'ctor' and any(ev.get('field') == field for b in f.blocks.values() for ev in b['ev'] if ev['e'] == 'init')):
            continue
        G = Graph(prog, f)
        for nid, idx, ev in G.events():
            w = written_member(ev)
            if w and w[0] == field:
                n += 1
                owner = f.nname
                if f.kind == 'lambda' and f.parent:
                    owner = strip_targs(f.parent.split('(')[0])
                key = '%s:%s:write(%s)' % (rule, owner, field.split('::')[-1])
                if owner in allowed:
                    R.held(rule, key, f.id, ev.loc(), 'write %s in allowed writer' % ev.show()[:80], nontrivial=False)
                else:
                    R.violated(rule, key, f.id, ev.loc(), 'write %s outside allowed writers %s' % (ev.show()[:80], sorted(allowed)))
        # constructor initialisers
        for nid, idx, ev in G.events():
            if ev.kind == 'init' and ev.j.get('field') == field:
                n += 1
                R.held(rule, '%s:%s:init(%s)' % (rule, f.nname, field.split('::')[-1]), f.id, ev.loc(), 'ctor initialiser', nontrivial=False)
    if n < min_sites:
        R.broken.append('%s: expected >= %d writes of %s, found %d' % (rule, min_sites, field, n))
    return n


def k9_who_calls(R, rule, prog, callee, allowed, min_sites=1, funcs=None, include_funcref=True):
    n = 0
    for f in (funcs if funcs is not None else prog.funcs.values()):
        hit = False
        for e in f.exprs:
            if e['k'] in ('call', 'construct', 'funcref') and strip_targs(e.get('fn') or '') == callee:
                if e['k'] == 'funcref' and not include_funcref:
                    continue
                hit = True
                n += 1
                owner = f.nname
                if f.kind == 'lambda' and f.parent:
                    owner = strip_targs(f.parent.split('(')[0])
                key = '%s:%s:call(%s)' % (rule, owner, callee.split('::')[-1])
                l = e['loc']
                site = f.locl(l)
                if owner in allowed:
                    R.held(rule, key, f.id, site, '%s referenced in allowed function' % callee, nontrivial=False)
                else:
                    R.violated(rule, key, f.id, site, '%s referenced outside %s' % (callee, sorted(allowed)))
        if hit:
            R.functions.add(f.id)
    if n < min_sites:
        R.broken.append('%s: expected >= %d references of %s, found %d' % (rule, min_sites, callee, n))
    return n


# -----------------------------------------------------------------------------
# call-graph helpers
# -----------------------------------------------------------------------------
def callers_of(prog, callee, funcs=None):
    out = []
    for f in (funcs if funcs is not None else prog.funcs.values()):
        for e in f.exprs:
            if e['k'] in ('call', 'construct') and strip_targs(e.get('fn') or '') == callee:
                out.append(f)
                break
    return out


def may_reach(prog, seeds, funcs=None):
    """exact (template-argument-carrying) names of functions that transitively, through direct
    calls and lambdas defined in them, call one of `seeds`."""
    funcs = list(funcs if funcs is not None else prog.funcs.values())
    calls_of = {}
    for f in funcs:
        s = set()
        for e in f.exprs:
            if e['k'] in ('call', 'construct') and e.get('fn'):
                s.add(e['fn'])
            if e['k'] == 'lambda' and e.get('fnid'):
                s.add('\x00' + e['fnid'])
        for b in f.blocks.values():
            for ev in b['ev']:
                if ev['e'] == 'dtor' and ev.get('dtor'):
                    s.add(ev['dtor']['fn'])
        calls_of[f] = s
    reach = set(seeds)
    reach_ids = set()
    changed = True
    while changed:
        changed = False
        for f in funcs:
            if f.id in reach_ids:
                continue
            cs = calls_of[f]
            if any(c in reach for c in cs if not c.startswith('\x00')) or any(c[1:] in reach_ids for c in cs if c.startswith('\x00')):
                reach_ids.add(f.id)
                if f.kind != 'lambda':
                    reach.add(f.name)
                changed = True
    return reach


def local_names_init_by(f, pred):
    """names of locals of f whose (single) initialiser expression satisfies pred(expr json, id)."""
    f.aliases()
    out = set()
    for d, init in f.inits.items():
        if init is None or init < 0:
            continue
        i = f.skip(init)
        e = f.x(i)
        if e is not None and pred(e, i):
            out.add(f.decls[d]['name'])
    return out


def returned_call(ev):
    """True if ev is the call whose value a depth-0 `return` returns (the state *before* the call is the
    state in which the function decides to return that value)."""
    if ev.kind != 'call' or ev.depth != 0:
        return False
    f = ev.f
    rs = getattr(f, '_return_subs', None)
    if rs is None:
        rs = set(f.skip(e['sub']) for e in f.exprs if e['k'] == 'return' and e.get('sub', -1) >= 0)
        f._return_subs = rs
    return ev.x in rs


def field_alias_decls(f, field):
    """decl ids of reference/pointer locals of f bound to member `field` (auto& c = th->semaphore_count)."""
    al = f.aliases()
    out = set()
    for d, init in al.items():
        e = f.x(f.skip(init))
        if e is not None and e['k'] == 'unop' and e['op'] == '&':
            e = f.x(f.skip(e['sub']))
        if e is not None and e['k'] == 'member' and e.get('field') == field:
            out.add(d)
    return out


def touches_field(ev, field, G=None, alias_cache={}):
    """True if event ev reads or writes member `field` directly or through a local reference alias
    (also when the alias is captured by reference in a spliced lambda; pass G for that)."""
    f = ev.f
    e = ev.e
    if e is None:
        return False
    if ev.kind == 'member':
        return e.get('field') == field

    def names_of(fn):
        key = (id(fn), field)
        if key not in alias_cache:
            alias_cache[key] = set(fn.decls[d]['name'] for d in field_alias_decls(fn, field))
        return alias_cache[key]
    names = set(names_of(f))
    if G is not None and f.kind == 'lambda':
        p = f
        hops = 0
        while p is not None and p.kind == 'lambda' and p.parent and hops < 4:
            p = G.prog.funcs.get(p.parent)
            hops += 1
            if p is not None:
                names |= names_of(p)
    if not names:
        return False
    for c in f.children(ev.x):
        ce = f.x(f.skip(c))
        if ce is not None and ce['k'] == 'ref' and ce['name'] in names:
            return True
    return False


def build_f_plain(prog, f):
    return Graph(prog, f)


def param(f, i):
    """name of the i-th parameter of f (rules speak about 'the first parameter', not about its spelling)."""
    ps = f.j['params']
    if i >= len(ps):
        raise AnalysisBroken('%s has no parameter #%d' % (f.nname, i))
    return f.decls[ps[i]]['name']


def locals_defined_only_by(f, rx):
    """names of locals of f ALL of whose definitions (initialiser and plain assignments) are spelled matching rx."""
    defs = {}
    for e in f.exprs:
        if e['k'] == 'declstmt':
            for v in e['vars']:
                if v.get('init') is not None and v['init'] >= 0 and f.decls[v['decl']]['kind'] == 'local':
                    defs.setdefault(v['decl'], []).append(f.show(v['init']))
        elif e['k'] == 'binop' and e['op'] == '=':
            l = f.x(f.skip(e['l']))
            if l is not None and l['k'] == 'ref' and f.decls[l['decl']]['kind'] == 'local':
                defs.setdefault(l['decl'], []).append(f.show(e['r']))
        elif e['k'] == 'binop' and e['op'].endswith('=') and e['op'] not in ('==', '!=', '<=', '>='):
            l = f.x(f.skip(e['l']))
            if l is not None and l['k'] == 'ref':
                defs.setdefault(l['decl'], []).append('<compound>')
    return set(f.decls[d]['name'] for d, shows in defs.items() if shows and all(re.match(rx, s or '') for s in shows))


def canon(roles):
    """roles: {canonical name: actual local/param name}.  Returns st -> set of facts in which every actual name is spelled
    canonically, so that a rule can speak about 'the local that holds the result of add_interest' as `ret` whatever the
    source calls it.  Names are replaced only as whole identifiers that are not member names (not after . or ->)."""
    items = [(c, a) for c, a in roles.items() if a and a != c]
    if not items:
        ident = lambda st: st
        ident.s = lambda x: x
        return ident
    stage1 = [(re.compile(r'(?<![\w.>])%s(?!\w)' % re.escape(a)), '\x00%d\x00' % n) for n, (c, a) in enumerate(items)]
    stage2 = [('\x00%d\x00' % n, c) for n, (c, a) in enumerate(items)]

    def one_s(k):
        k = k or ''
        for p, ph in stage1:
            k = p.sub(ph, k)
        for ph, c in stage2:
            k = k.replace(ph, c)
        return k

    def f(st):
        return set(one_s(k) for k in st)
    f.s = one_s
    return f


def local_of_type(f, rx, what='local'):
    n = sorted(set(d['name'] for d in f.decls if d['kind'] == 'local' and re.search(rx, d.get('type') or '') and not d['name'].startswith('__')))
    if len(n) != 1:
        raise AnalysisBroken('%s: expected exactly one %s of type /%s/, found %s' % (f.nname, what, rx, n))
    return n[0]


def one(names, what, f=None):
    names = sorted(set(names))
    if len(names) != 1:
        raise AnalysisBroken('%sexpected exactly one %s, found %s' % ((f.nname + ': ') if f else '', what, names))
    return names[0]


def locals_assigned_from_call(f, rx):
    """names of locals initialised by, or assigned from, a call whose resolved callee matches rx."""
    out = set()
    def is_call(i, depth=0):
        e = f.x(f.skip(i))
        if e is not None and e['k'] == 'construct' and e.get('copy') and len(e.get('args', [])) == 1 and depth < 3:
            return is_call(e['args'][0], depth + 1)         # copy/move construction of the call's result
        if e is not None and e['k'] == 'binop' and e['op'] == '=' and depth < 3:
            return is_call(e['r'], depth + 1)               # `auto a = b = call()`: the value of the inner assignment
        return e is not None and e['k'] == 'call' and re.search(rx, strip_targs(e.get('fn') or ''))
    for e in f.exprs:
        if e['k'] == 'declstmt':
            for v in e['vars']:
                if v.get('init') is not None and v['init'] >= 0 and is_call(v['init']):
                    out.add(f.decls[v['decl']]['name'])
        elif e['k'] == 'binop' and e['op'] == '=':
            l = f.x(f.skip(e['l']))
            if l is not None and l['k'] == 'ref' and is_call(e['r']):
                out.add(f.decls[l['decl']]['name'])
        elif e['k'] == 'call' and e.get('op') == '=' and e.get('ctype') == 'operator' and 'recv' in e and e.get('args'):
            l = f.x(f.skip(e['recv']))             # overloaded assignment (shared_ptr, string, ...)
            if l is not None and l['k'] == 'ref' and is_call(e['args'][0]):
                out.add(f.decls[l['decl']]['name'])
    return out
