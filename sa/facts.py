"""Loading of photon-sa fact files and expression utilities.

Everything here is purely structural: it reads what the extractor resolved
(callees, fields, enum constants) and offers canonical *access paths* and a
printable canonical form of expressions.  No verdicts.
"""
import json
import os
import re


class AnalysisBroken(Exception):
    """The analysis lost its subject (anchor vanished, path not canonical...)."""


def strip_targs(name):
    """photon::channel<int>::send -> photon::channel::send (balanced <>)."""
    if name is None:
        return None
    out = []
    depth = 0
    i = 0
    n = len(name)
    while i < n:
        c = name[i]
        if name.startswith('operator', i) and (i == 0 or not (name[i - 1].isalnum() or name[i - 1] == '_')):
            # operator<, operator<<, operator<=, operator->, operator>> ... keep verbatim
            j = i + 8
            while j < n and name[j] in '<>=!-+*/%&|^~,()[] ':
                j += 1
            if depth == 0:
                out.append(name[i:j])
            i = j
            continue
        if c == '<':
            depth += 1
        elif c == '>':
            depth -= 1
        elif depth == 0:
            out.append(c)
        i += 1
    return ''.join(out)


MEMORY_ORDERS = {
    'std::memory_order_relaxed': 'relaxed', 'std::memory_order_consume': 'consume',
    'std::memory_order_acquire': 'acquire', 'std::memory_order_release': 'release',
    'std::memory_order_acq_rel': 'acq_rel', 'std::memory_order_seq_cst': 'seq_cst',
    'std::memory_order::memory_order_relaxed': 'relaxed', 'std::memory_order::memory_order_consume': 'consume',
    'std::memory_order::memory_order_acquire': 'acquire', 'std::memory_order::memory_order_release': 'release',
    'std::memory_order::memory_order_acq_rel': 'acq_rel', 'std::memory_order::memory_order_seq_cst': 'seq_cst',
}
ORDER_BY_VALUE = {0: 'relaxed', 1: 'consume', 2: 'acquire', 3: 'release', 4: 'acq_rel', 5: 'seq_cst'}

TRANSPARENT_CALLS = {'likely', 'unlikely', '__builtin_expect', 'std::move', 'std::forward', 'std::addressof'}


class Func:
    def __init__(self, j, tu):
        self.j = j
        self.tu = tu
        self.id = j['id']
        self.name = j['name']
        self.nname = strip_targs(j['name'])
        self.sig = j['sig']
        self.kind = j['kind']
        self.rec = j.get('rec')
        self.parent = j.get('parent')
        self.exprs = j.get('exprs', [])
        self.decls = j.get('decls', [])
        self.blocks = {b['id']: b for b in j.get('blocks', [])}
        self.entry = j.get('entry')
        self.exit = j.get('exit')
        self.file = tu.files[j['loc'][0]] if j['loc'][0] >= 0 else '?'
        self.line = j['loc'][1]
        self.endline = j.get('endline', self.line)
        self._alias = None
        self._assign_count = None

    def __repr__(self):
        return '<Func %s>' % self.id

    # ---- expression access -------------------------------------------------
    def x(self, i):
        return self.exprs[i] if i is not None and i >= 0 else None

    def loc(self, i):
        e = self.x(i)
        if not e:
            return '%s:%d' % (self.file, self.line)
        l = e['loc']
        f = self.tu.files[l[0]] if l[0] >= 0 else '?'
        return '%s:%d:%d' % (f, l[1], l[2])

    def locl(self, l):
        f = self.tu.files[l[0]] if l[0] >= 0 else '?'
        return '%s:%d:%d' % (f, l[1], l[2])

    def line_of(self, i):
        e = self.x(i)
        return e['loc'][1] if e else self.line

    def skip(self, i):
        """Skip transparent wrappers: casts, likely()/unlikely(), std::move."""
        while True:
            e = self.x(i)
            if e is None:
                return i
            k = e['k']
            if k == 'cast':
                i = e['sub']
            elif k == 'call' and e.get('fn') in TRANSPARENT_CALLS and len(e.get('args', [])) >= 1:
                i = e['args'][0]
            elif k == 'construct' and e.get('copy') and len(e.get('args', [])) == 1:
                i = e['args'][0]
            else:
                return i

    def callee(self, i):
        e = self.x(i)
        if e and e['k'] in ('call', 'construct'):
            return strip_targs(e.get('fn'))
        return None

    def const(self, i):
        i = self.skip(i)
        e = self.x(i)
        if e is None:
            return None
        cv = e.get('cv')
        if isinstance(cv, int):
            return cv
        return None

    # ---- local aliases -----------------------------------------------------
    def assign_counts(self):
        """decl id -> number of writes (assignments, ++/--, address taken, passed by non-const ref unknown)."""
        if self._assign_count is not None:
            return self._assign_count
        cnt = {}
        for e in self.exprs:
            k = e['k']
            tgt = None
            if k == 'binop' and e['op'] in ('=', '+=', '-=', '*=', '/=', '|=', '&=', '^=', '<<=', '>>=', '%='):
                tgt = e['l']
            elif k == 'unop' and e['op'] in ('++', '--'):
                tgt = e['sub']
            elif k == 'unop' and e['op'] == '&':
                tgt = e['sub']
            elif k == 'call' and e.get('ctype') == 'operator' and e.get('op') in ('=', '+=', '-=', '++', '--') and 'recv' in e:
                tgt = e['recv']
            if tgt is not None:
                t = self.x(self.skip(tgt))
                if t and t['k'] == 'ref':
                    cnt[t['decl']] = cnt.get(t['decl'], 0) + 1
            if k in ('call', 'construct') and e.get('sig') and e.get('args'):
                # a variable handed to a non-const lvalue-reference parameter may be rewritten by the callee
                pts = split_sig(e['sig'])
                for a, pt in zip(e['args'], pts):
                    pt = pt.strip()
                    if pt.endswith('&') and not pt.endswith('&&') and not pt[:-1].rstrip().endswith('const') and not pt.startswith('const ') or \
                       (pt.endswith('*&') and not pt[:-1].rstrip().endswith('const')):
                        t = self.x(self.skip(a))
                        if t and t['k'] == 'ref':
                            cnt[t['decl']] = cnt.get(t['decl'], 0) + 1
        self._assign_count = cnt
        return cnt

    def aliases(self):
        """decl id -> init expr id, for locals that are initialised once and never
        written again and whose initialiser is an access path (pointer or
        reference alias) -- `auto lk = &th->lock`, `thread* th = (thread*)h`,
        `auto& c = th->semaphore_count`."""
        if self._alias is not None:
            return self._alias
        cnt = self.assign_counts()
        al = {}
        self._alias = al
        inits = {}
        for e in self.exprs:
            if e['k'] == 'declstmt':
                for v in e['vars']:
                    inits[v['decl']] = v['init']
        self.inits = inits
        for d, init in inits.items():
            if init is None or init < 0:
                continue
            dj = self.decls[d]
            if dj['kind'] != 'local':
                continue
            if not (dj.get('isref') or dj.get('isptr')):
                continue
            if cnt.get(d, 0) > 0 and not dj.get('isref'):
                continue      # a pointer that is re-assigned is not an alias; a reference can not be re-bound
            if not dj.get('isref') and not self._stable_pointer_init(init):
                continue      # a pointer loaded from memory is a snapshot of that location, not a name for it
            al[d] = init
        return al

    def _stable_pointer_init(self, init):
        """&lvalue, this, a copy/cast of another local or parameter, or a conversion operator on a local object."""
        i = self.skip(init)
        e = self.x(i)
        if e is None:
            return False
        k = e['k']
        if k == 'this' or (k == 'unop' and e['op'] == '&'):
            return True
        if k == 'ref':
            # a copy of another pointer variable names the same object only while that variable is never re-assigned
            return self.decls[e['decl']]['kind'] in ('param', 'local') and self.assign_counts().get(e['decl'], 0) == 0
        if k == 'call' and is_conversion(e) and 'recv' in e:
            r = self.x(self.skip(e['recv']))
            return r is not None and r['k'] == 'ref'
        if k == 'cond':
            t, fl = self.x(self.skip(e['t'])), self.x(self.skip(e['f']))
            if fl is not None and fl['k'] == 'lit':
                return self._stable_pointer_init(e['t'])
            if t is not None and t['k'] == 'lit':
                return self._stable_pointer_init(e['f'])
        return False

    def value_init(self, d):
        """init expr of a local assigned exactly once at its declaration (value alias)."""
        self.aliases()
        if self.assign_counts().get(d, 0) > 0:
            return None
        if self.decls[d]['kind'] != 'local':
            return None
        return self.inits.get(d)

    # ---- access paths --------------------------------------------------------
    def path(self, i, ctx=None, depth=0):
        """Canonical access path of an lvalue / pointer expression, or None."""
        if depth > 40:
            return None
        i = self.skip(i)
        e = self.x(i)
        if e is None:
            return None
        k = e['k']
        if k == 'this':
            if ctx and ctx.get('this') is not None:
                return ctx['this']
            return 'this'
        if k == 'ref':
            name = e['name']
            d = e['decl']
            if ctx and name in ctx.get('subst', {}) and self.decls[d]['kind'] == 'param':
                return ctx['subst'][name]
            al = self.aliases()
            if d in al:
                p = self.path(al[d], ctx, depth + 1)
                if p is not None:
                    if self.decls[d].get('isref') and not self.decls[d].get('isptr'):
                        return p
                    return p
            if ctx and e.get('captured') and name in ctx.get('captures', {}):
                return ctx['captures'][name]
            if 'qname' in e:
                return e['qname']
            return name
        if k == 'member':
            b = self.path(e['base'], ctx, depth + 1)
            if b is None:
                return None
            if e.get('ismethod'):
                return None
            if e['name'] == '':
                # anonymous struct/union member: transparent
                return ('*' + b if not b.startswith('&') else b[1:]) if e['arrow'] else b
            if e['arrow']:
                if b.startswith('&'):
                    return _wrap(b[1:]) + '.' + e['name']
                return _wrap(b) + '->' + e['name']
            if b.startswith('*'):
                return _wrap(b[1:]) + '->' + e['name']
            return _wrap(b) + '.' + e['name']
        if k == 'unop':
            if e['op'] == '&':
                s = self.path(e['sub'], ctx, depth + 1)
                if s is None:
                    return None
                if s.startswith('*'):
                    return s[1:]
                return '&' + s
            if e['op'] == '*':
                se = self.x(self.skip(e['sub']))
                if se and se['k'] == 'call' and se.get('fn') == '__errno_location':
                    return 'errno'
                s = self.path(e['sub'], ctx, depth + 1)
                if s is None:
                    return None
                if s.startswith('&'):
                    return s[1:]
                return '*' + s
            return None
        if k == 'cond':
            t, fl = self.x(self.skip(e['t'])), self.x(self.skip(e['f']))
            if fl is not None and fl['k'] == 'lit' and fl.get('cv') == 0:
                return self.path(e['t'], ctx, depth + 1)
            if t is not None and t['k'] == 'lit' and t.get('cv') == 0:
                return self.path(e['f'], ctx, depth + 1)
            return None
        if k == 'index':
            b = self.path(e['base'], ctx, depth + 1)
            if b is None:
                return None
            ic = self.const(e['idx'])
            ip = str(ic) if ic is not None else (self.path(e['idx'], ctx, depth + 1) or '?')
            return '%s[%s]' % (_wrap(b), ip)
        if k == 'call':
            fn = strip_targs(e.get('fn')) or ''
            # operator-> / operator* of smart pointers and iterators, zero-arg getters
            if e.get('ctype') == 'operator' and e.get('op') == '[]' and 'recv' in e and len(e.get('args', [])) == 1:
                r = self.path(e['recv'], ctx, depth + 1)
                if r is None:
                    return None
                ic = self.const(e['args'][0])
                ip = str(ic) if ic is not None else (self.path(e['args'][0], ctx, depth + 1) or self.show(e['args'][0], ctx, depth + 1))
                return '%s[%s]' % (_wrap(r), ip)
            if e.get('ctype') == 'operator' and e.get('op') in ('->', '*') and 'recv' in e and not e.get('args'):
                r = self.path(e['recv'], ctx, depth + 1)
                if r is None:
                    return None
                return r if e['op'] == '->' else '*' + r
            if e.get('ctype') == 'member' and not e.get('args') and 'recv' in e:
                r = self.path(e['recv'], ctx, depth + 1)
                if r is None:
                    return None
                short = fn.split('::')[-1]
                if is_conversion(e):
                    return r      # conversion operator: the object itself
                arrow = e.get('arrow')
                if arrow and r.startswith('&'):
                    r, arrow = r[1:], False
                return '%s%s%s()' % (_wrap(r), '->' if arrow else '.', short)
            return None
        return None

    def show(self, i, ctx=None, depth=0):
        """Printable canonical form of an expression (paths canonicalised)."""
        if depth > 30:
            return '...'
        i = self.skip(i)
        e = self.x(i)
        if e is None:
            return ''
        if e['k'] == 'ref' and isinstance(e.get('cv'), int) and self.decls[e['decl']]['kind'] in ('global', 'staticlocal'):
            return str(e['cv'])      # named compile-time constant
        p = self.path(i, ctx)
        if p is not None:
            return p
        k = e['k']
        sh = lambda j: self.show(j, ctx, depth + 1)
        if k in ('lit',):
            if e['t'] == 'str':
                return json.dumps(e.get('s', ''))
            if e['t'] == 'null':
                return 'nullptr'
            if e['t'] == 'bool':
                return 'true' if e.get('cv') else 'false'
            return str(e.get('cv', '?'))
        if k == 'enumconst':
            return e['name']
        if k == 'funcref':
            return '&' + (strip_targs(e.get('fn')) or '?')
        if k == 'unop':
            if e.get('post'):
                return sh(e['sub']) + e['op']
            return e['op'] + sh(e['sub'])
        if k == 'binop':
            return '(%s %s %s)' % (sh(e['l']), e['op'], sh(e['r']))
        if k == 'cond':
            return '(%s ? %s : %s)' % (sh(e['c']), sh(e['t']), sh(e['f']))
        if k in ('call', 'construct'):
            fn = strip_targs(e.get('fn')) or ('(*%s)' % sh(e.get('calleeExpr', -1)))
            args = ', '.join(sh(a) for a in e.get('args', []))
            if e.get('ctype') == 'operator' and 'recv' in e:
                if e.get('op') in ('()', '[]'):
                    return '%s%s%s%s' % (sh(e['recv']), e['op'][0], args, e['op'][1])
                if not e.get('args'):
                    return '%s%s' % (e['op'], sh(e['recv']))
                return '(%s %s %s)' % (sh(e['recv']), e['op'], args)
            if e.get('ctype') == 'operator':
                return '%s(%s)' % (fn, args)
            if 'recv' in e:
                r = sh(e['recv'])
                arrow = e.get('arrow')
                if arrow and r.startswith('&'):
                    r, arrow = r[1:], False
                return '%s%s%s(%s)' % (_wrap(r), '->' if arrow else '.', fn.split('::')[-1], args)
            return '%s(%s)' % (fn, args)
        if k == 'sizeof':
            return 'sizeof(%s)' % (e.get('type') or sh(e.get('sub')))
        if k == 'lambda':
            return '[lambda %s]' % e.get('fnid', '?').split('::')[-1]
        if k == 'new':
            return 'new %s' % e.get('type')
        if k == 'delete':
            return 'delete %s' % sh(e['sub'])
        if k == 'return':
            return 'return %s' % sh(e['sub'])
        if k == 'initlist':
            return '{%s}' % ', '.join(sh(a) for a in e.get('subs', []))
        if k == 'declstmt':
            return '; '.join('%s = %s' % (self.decls[v['decl']]['name'], sh(v['init'])) for v in e['vars'])
        return '<%s>' % k

    def memory_orders(self, i):
        """memory orders named among the arguments of call expr i (after default-arg resolution)."""
        e = self.x(i)
        out = []
        for a in e.get('args', []):
            ae = self.x(self.skip(a))
            if ae is None:
                continue
            if ae['k'] == 'enumconst' and ae['name'] in MEMORY_ORDERS:
                out.append(MEMORY_ORDERS[ae['name']])
            elif ae.get('ty', '').endswith('memory_order') and isinstance(ae.get('cv'), int):
                out.append(ORDER_BY_VALUE.get(ae['cv'], '?'))
            elif ae.get('ty', '').endswith('memory_order'):
                out.append('?')
        return out

    def children(self, i):
        e = self.x(i)
        if e is None:
            return []
        out = []
        for key in ('recv', 'base', 'sub', 'l', 'r', 'c', 't', 'f', 'idx', 'init', 'size', 'calleeExpr'):
            v = e.get(key)
            if isinstance(v, int) and v >= 0 and key != 't' or (key == 't' and e['k'] == 'cond' and isinstance(v, int) and v >= 0):
                out.append(v)
        for key in ('args', 'subs', 'caps', 'placement'):
            for v in e.get(key, []) or []:
                if isinstance(v, int) and v >= 0:
                    out.append(v)
        if e['k'] == 'declstmt':
            for v in e['vars']:
                if v['init'] is not None and v['init'] >= 0:
                    out.append(v['init'])
        return out

    def subtree(self, i, seen=None):
        """all expr ids in the tree rooted at i (including i)."""
        if seen is None:
            seen = set()
        if i is None or i < 0 or i in seen:
            return seen
        seen.add(i)
        for c in self.children(i):
            self.subtree(c, seen)
        return seen


def split_sig(sig):
    """'(A, B<C, D>, E) const' -> ['A', 'B<C, D>', 'E']"""
    s = sig.strip()
    if s.startswith('('):
        depth = 0
        for i, c in enumerate(s):
            if c == '(':
                depth += 1
            elif c == ')':
                depth -= 1
                if depth == 0:
                    s = s[1:i]
                    break
    out, cur, depth = [], '', 0
    for c in s:
        if c in '<([':
            depth += 1
        elif c in '>)]':
            depth -= 1
        if c == ',' and depth == 0:
            out.append(cur.strip())
            cur = ''
        else:
            cur += c
    if cur.strip():
        out.append(cur.strip())
    return out


def is_conversion(e):
    fn = e.get('fn') or ''
    return bool(re.search(r'::operator [A-Za-z_:]', fn)) and e.get('ctype') == 'member'


def _wrap(p):
    if p.startswith('*') or p.startswith('&'):
        return '(' + p + ')'
    return p


class TU:
    def __init__(self, path, src=None):
        with open(path) as f:
            j = json.load(f)
        self.path = path
        self.src = src
        self.files = j['files']
        self.errors = j.get('errors', False)
        self.funcs = [Func(fj, self) for fj in j['functions']]
        self.records = j['records']
        for r in self.records:
            r['file'] = self.files[r['file']] if isinstance(r['file'], int) else r['file']


class Program:
    """A set of TUs; functions de-duplicated by (id, file, line)."""

    def __init__(self, tus):
        self.tus = tus
        self.funcs = {}
        self.by_name = {}
        self.by_nname = {}
        self.records = {}
        for tu in tus:
            for f in tu.funcs:
                key = f.id
                if key in self.funcs:
                    continue
                self.funcs[key] = f
                self.by_name.setdefault(f.name, []).append(f)
                self.by_nname.setdefault(f.nname, []).append(f)
            for r in tu.records:
                self.records.setdefault(r['name'], r)

    def find(self, name, sig=None, file=None, all=False, required=True):
        """Find functions by (template-stripped or exact) qualified name."""
        c = list(self.by_name.get(name) or [])
        c += [f for f in (self.by_nname.get(name) or []) if f not in c]
        if sig is not None:
            c = [f for f in c if sig in f.sig]
        if file is not None:
            c = [f for f in c if f.file.endswith(file)]
        if not c:
            if required:
                raise AnalysisBroken('anchor function not found: %s%s' % (name, ' sig~' + sig if sig else ''))
            return [] if all else None
        if all:
            return c
        if len(c) > 1:
            ids = sorted(set(f.id for f in c))
            if len(ids) > 1:
                raise AnalysisBroken('anchor function ambiguous: %s -> %s' % (name, ids[:6]))
        return c[0]

    def lambdas_of(self, f):
        return [g for g in self.funcs.values() if g.parent == f.id]

    def in_file(self, suffix):
        return [f for f in self.funcs.values() if f.file.endswith(suffix)]
