"""Path-sensitive forward analysis over event graphs.

The abstract state at a program point is a *set of fact-sets* (disjunctive
completion of a must-fact domain).  Facts are strings:

  L:<lockpath>[#mode]      lock held                        (LockTracker)
  LC:<lockpath>|<cond>     lock held iff <cond> is non-zero (conditional locker)
  LH:<var>                 ScopedLockHead-style object alive; `<var>` non-null => L:<var>->lock
  G:<key>=T|F              branch condition <key> known true/false (GuardTracker)
  V:<local>=<int>          local variable holds a literal      (ConstTracker)
  S:<tag>                  an event of class <tag> was seen    (SeenTracker)

Only the facts a rule asks for are tracked, which keeps the number of distinct
states per node small; a cap turns blow-up into AnalysisBroken, never a guess.
"""
import re
from .facts import AnalysisBroken, strip_targs, is_conversion
from .graph import ASSIGN_OPS

STATE_CAP = 3000


# ----------------------------------------------------------------------------
# condition atoms
# ----------------------------------------------------------------------------
NEG = {'==': ('==', True), '!=': ('==', False), '<': ('<', True), '>=': ('<', False),
       '<=': ('<=', True), '>': ('<=', False)}
SWAP = {'==': '==', '!=': '!=', '<': '>', '>': '<', '<=': '>=', '>=': '<='}


def _known(st, f, ctx, x, pol):
    """are all atomic facts of (x == pol) already in state st?"""
    if st is None:
        return False
    a = atoms(f, ctx, x, pol, None, 1, None)
    return bool(a) and all(('G:%s=%s' % (k, 'T' if p else 'F')) in st for k, p in a)


def _mirror(out, ls, nop, rs, p):
    """the same comparison with its operands swapped (`a < b` is `!(b <= a)`): a rule must not care which way round the source
    spells a comparison"""
    if nop == '<':
        out.append(('%s <= %s' % (rs, ls), not p))
    elif nop == '<=':
        out.append(('%s < %s' % (rs, ls), not p))
    elif nop == '==':
        out.append(('%s == %s' % (rs, ls), p))


def atoms(f, ctx, x, pol, out=None, depth=0, st=None):
    """Decompose condition expr x taken with polarity pol into atomic facts
    [(key, polarity)].  Only sound decompositions: (a&&b)=T, (a||b)=F, !a; and, using the facts
    `st` already established on the path, (a||b)=T with a known false => b, (a&&b)=F with a known true => !b."""
    if out is None:
        out = []
    if depth > 25:
        return out
    x = f.skip(x)
    e = f.x(x)
    if e is None:
        return out
    k = e['k']
    if k == 'unop' and e['op'] == '!':
        return atoms(f, ctx, e['sub'], not pol, out, depth + 1, st)
    if k == 'binop' and e['op'] == '&&':
        if pol:
            atoms(f, ctx, e['l'], True, out, depth + 1, st)
            atoms(f, ctx, e['r'], True, out, depth + 1, st)
        else:
            out.append((f.show(x, ctx), False))
            if _known(st, f, ctx, e['l'], True):
                atoms(f, ctx, e['r'], False, out, depth + 1, st)
            elif _known(st, f, ctx, e['r'], True):
                atoms(f, ctx, e['l'], False, out, depth + 1, st)
        return out
    if k == 'binop' and e['op'] == '||':
        if not pol:
            atoms(f, ctx, e['l'], False, out, depth + 1, st)
            atoms(f, ctx, e['r'], False, out, depth + 1, st)
        else:
            out.append((f.show(x, ctx), True))
            if _known(st, f, ctx, e['l'], False):
                atoms(f, ctx, e['r'], True, out, depth + 1, st)
            elif _known(st, f, ctx, e['r'], False):
                atoms(f, ctx, e['l'], True, out, depth + 1, st)
        return out
    if k == 'binop' and e['op'] in NEG:
        l, r, op = e['l'], e['r'], e['op']
        lc, rc = f.const(l), f.const(r)
        if lc is not None and rc is None:
            l, r, op = r, l, SWAP[op]
            lc, rc = rc, lc
        nop, same = NEG[op]
        p = pol if same else (not pol)
        # x == 0 / x != 0  ->  truthiness of x
        if rc == 0 and nop == '==':
            return atoms(f, ctx, l, not p, out, depth + 1, st)
        # b > 0 / b <= 0 for a boolean b (`while (!empty() > 0)`) -> truthiness of b
        le = f.x(f.skip(l))
        if rc == 0 and nop == '<=' and le is not None and (le.get('ty') == 'bool' or (le['k'] == 'unop' and le['op'] == '!')):
            return atoms(f, ctx, l, not p, out, depth + 1, st)
        rs = str(rc) if rc is not None else f.show(r, ctx)
        out.append(('%s %s %s' % (f.show(l, ctx), nop, rs), p))
        if rc is None:
            _mirror(out, f.show(l, ctx), nop, rs, p)
        # additional derived facts for orderings against constants
        if rc is not None and nop == '<' and p and rc <= 0:
            pass
        return out
    if k == 'call' and e.get('ctype') == 'operator' and e.get('op') in NEG:
        # overloaded comparison (iterators, strings): same normalisation as the built-in one
        if 'recv' in e and len(e.get('args', [])) == 1:
            l, r = e['recv'], e['args'][0]
        elif len(e.get('args', [])) == 2:
            l, r = e['args']
        else:
            l = r = None
        if l is not None:
            nop, same = NEG[e['op']]
            p = pol if same else (not pol)
            out.append(('%s %s %s' % (f.show(l, ctx), nop, f.show(r, ctx)), p))
            _mirror(out, f.show(l, ctx), nop, f.show(r, ctx), p)
            return out
    if k == 'call' and is_conversion(e) and not e.get('args'):
        # conversion operator: truthiness of the object
        out.append((f.show(e['recv'], ctx), pol))
        return out
    # assignment inside condition: (x = expr) -> truthiness of x
    if k == 'binop' and e['op'] == '=':
        out.append((f.show(e['l'], ctx), pol))
        return out
    if k == 'declstmt' and len(e['vars']) == 1:
        out.append((f.decls[e['vars'][0]['decl']]['name'], pol))
        return out
    if k == 'ref' and not e.get('captured'):
        # single-assignment bool local initialised from a condition: `bool got = (try_lock() == 0); if (got)`
        init = f.value_init(e['decl'])
        if init is not None and init >= 0:
            ie = f.x(f.skip(init))
            if ie is not None and (ie['k'] == 'binop' and (ie['op'] in NEG or ie['op'] in ('&&', '||')) or (ie['k'] == 'unop' and ie['op'] == '!')):
                atoms(f, ctx, init, pol, out, depth + 1, st)
            elif ie is not None and ie['k'] == 'call' and f.decls[e['decl']]['type'] in ('bool', 'int'):
                out.append((f.show(init, ctx), pol))     # `bool ok = try_fn(); if (ok)`
    out.append((f.show(x, ctx), pol))
    return out


def cond_atoms(cond, st=None):
    f, ctx, x, pol = cond
    if isinstance(pol, tuple):
        # switch edge / temporary-destructor branch
        kind, val = pol
        if kind == 'case' and val is not None:
            return [('%s == %d' % (f.show(x, ctx), val), True)]
        return []
    return atoms(f, ctx, x, pol, None, 0, st)


# ----------------------------------------------------------------------------
# trackers
# ----------------------------------------------------------------------------
class Tracker:
    def transfer(self, ev, st):
        return st

    def edge(self, cond, at, st):
        return st


def obj_path(ev, e):
    """lvalue path of the receiver object of member call e."""
    rp = ev.path(e['recv'])
    if rp is None:
        return None
    if e.get('arrow'):
        return rp[1:] if rp.startswith('&') else '*' + rp
    return rp


def lock_identity(p):
    """lvalue path of the lock object from a pointer/lvalue path."""
    if p is None:
        return None
    if p.startswith('&'):
        return p[1:]
    return p


LOCK_RECORDS = {'photon::spinlock', 'photon::mutex', 'photon::ticket_spinlock', 'photon::qspinlock',
                'photon::recursive_mutex', 'photon::seq_mutex', 'std::mutex', 'photon::rwlock'}
LOCKER_CTORS = {'photon::locker::locker'}
STD_LOCKERS = {'std::lock_guard::lock_guard', 'std::unique_lock::unique_lock', 'std::scoped_lock::scoped_lock'}
# deferred hand-off calls: callee -> (index of unlock-function argument, index of lock argument)
HANDOFF = {
    'photon::thread_usleep_defer': None,     # resolved by argument types below
    'photon::waitq::wait_defer': None,
}
UNLOCK_FUNCS = {'photon::spinlock_unlock', 'photon::mutex_unlock', 'photon::spinlock::unlock', 'photon::mutex::unlock'}


class LockTracker(Tracker):
    """Must-hold lockset with the acquire/release idioms of this repository."""

    def __init__(self, extra_acquire=None, extra_release=None):
        self.extra_acquire = extra_acquire or {}
        self.extra_release = extra_release or {}
        self.sites = []   # (ev, effect) for evidence
        self.types = {}   # lock path -> record type of the lock object
        self.strict = set()   # lock paths for which an unlock while not held is recorded as XU:<path>

    # ---- helpers
    def _locker_path(self, f, ctx, cx):
        """lock path + do_lock of a locker construct expr"""
        e = f.x(cx)
        a = e.get('args', [])
        if not a:
            return None, None
        sig = e.get('sig', '')
        p = f.path(a[0], ctx)
        first_is_ptr = sig.lstrip('(').split(',')[0].rstrip(') ').endswith('*')
        if p is None:
            return None, None
        if first_is_ptr:
            lp = p[1:] if p.startswith('&') else '*' + p
        else:
            lp = p
        do_lock = 2
        do_lock_show = None
        if len(a) > 1:
            c = f.const(a[1])
            if c is not None:
                do_lock = c
            else:
                do_lock = None
                do_lock_show = f.show(a[1], ctx)
        return lp, (do_lock, do_lock_show)

    def _construct_of_decl(self, f, decl):
        f.aliases()
        init = f.inits.get(decl)
        if init is None or init < 0:
            return None
        i = f.skip(init)
        e = f.x(i)
        if e and e['k'] == 'construct':
            return i
        return None

    def effects(self, ev):
        """list of (op, fact) with op in '+','-' ; computed purely from the event."""
        out = []
        f, ctx = ev.f, ev.ctx
        if ev.kind == 'call':
            e = ev.e
            fn = strip_targs(e.get('fn') or '')
            short = fn.split('::')[-1]
            rec = strip_targs(e.get('rec') or '')
            if e.get('ctype') == 'member' and 'recv' in e:
                lp = obj_path(ev, e)
                if rec == 'photon::locker':
                    # explicit lock()/unlock() on a locker object
                    r = f.x(f.skip(e['recv']))
                    if r and r['k'] == 'ref':
                        cx = self._construct_of_decl(f, r['decl'])
                        if cx is not None:
                            llp, _ = self._locker_path(f, ctx, cx)
                            if llp:
                                if short == 'lock':
                                    out.append(('+', 'L:' + llp))
                                elif short == 'unlock':
                                    out.append(('-', 'L:' + llp))
                elif rec in LOCK_RECORDS and lp is not None:
                    if rec == 'photon::rwlock':
                        if short == 'lock':
                            m = f.const(e['args'][0]) if e.get('args') else None
                            out.append(('+', 'L:%s#%s' % (lp, m)))
                        elif short == 'unlock':
                            out.append(('-prefix', 'L:%s#' % lp))
                    elif short == 'lock':
                        out.append(('+', 'L:' + lp))
                    elif short == 'unlock':
                        out.append(('-', 'L:' + lp))
                elif rec == 'photon::asymmetric_spinLock' and lp is not None:
                    if short == 'foreground_lock':
                        out.append(('+', 'L:%s#fg' % lp))
                    elif short == 'foreground_unlock':
                        out.append(('-', 'L:%s#fg' % lp))
                    elif short == 'background_unlock':
                        out.append(('-', 'L:%s#bg' % lp))
            # deferred hand-offs: thread_usleep_defer(..., &spinlock_unlock, &X), wait_defer(t, spinlock_unlock, &X)
            if short in ('thread_usleep_defer', 'wait_defer', 'do_thread_usleep_defer', 'do_shutdown_usleep_defer'):
                args = e.get('args', [])
                for n, a in enumerate(args):
                    ae = f.x(f.skip(a))
                    if ae is None:
                        continue
                    if ae['k'] == 'funcref' or (ae['k'] == 'unop' and ae['op'] == '&' and (f.x(f.skip(ae['sub'])) or {}).get('k') == 'funcref'):
                        fr = ae if ae['k'] == 'funcref' else f.x(f.skip(ae['sub']))
                        if strip_targs(fr.get('fn')) in UNLOCK_FUNCS and n + 1 < len(args):
                            lp = lock_identity(f.path(args[n + 1], ctx))
                            if lp and not f.path(args[n + 1], ctx).startswith('&'):
                                lp = '*' + lp
                            if lp:
                                out.append(('-', 'L:' + lp))
                                out.append(('handoff', lp))
                    if ae['k'] in ('initlist', 'construct') and ae.get('ty', '').startswith('Delegate'):
                        pass
            if fn in self.extra_acquire:
                lp = self.extra_acquire[fn](ev)
                if lp:
                    out.append(('+', 'L:' + lp))
            if fn in self.extra_release:
                lp = self.extra_release[fn](ev)
                if lp:
                    out.append(('-', 'L:' + lp))
        elif ev.kind == 'construct':
            out.extend(self._construct_effects(f, ctx, ev.x, decl_name=None))
        elif ev.kind == 'dtor':
            jd = ev.j
            d = jd.get('dtor')
            dfn = strip_targs(d['fn']) if d else ''
            cx = None
            if jd.get('kind') == 'auto':
                cx = self._construct_of_decl(f, jd['decl'])
            elif jd.get('kind') == 'temp' and ev.x is not None:
                i = f.skip(ev.x)
                if (f.x(i) or {}).get('k') == 'construct':
                    cx = i
            if cx is not None:
                for op, fact in self._construct_effects(f, ctx, cx, decl_name=jd.get('name')):
                    if op == '+':
                        out.append(('-', fact))
                    elif op == '+C':
                        out.append(('-', fact))
                    elif op == '+H':
                        out.append(('-', fact))
                        out.append(('-', 'L:%s->lock' % fact[3:]))
            elif dfn in ('photon::AtomicRunQ::~AtomicRunQ',):
                out.append(('-', 'L:RUNQ#fg'))
        return out

    def _construct_effects(self, f, ctx, cx, decl_name):
        out = []
        e = f.x(cx)
        fn = strip_targs(e.get('fn') or '')
        if fn in LOCKER_CTORS:
            if e.get('copy'):
                return out
            lp, dl = self._locker_path(f, ctx, cx)
            if lp is None:
                return out
            do_lock, do_lock_show = dl
            if do_lock is None:
                out.append(('+C', 'LC:%s|%s' % (lp, do_lock_show)))
            elif do_lock > 0:
                out.append(('+', 'L:' + lp))
        elif fn in STD_LOCKERS:
            a = e.get('args', [])
            if a:
                p = f.path(a[0], ctx)
                if p:
                    out.append(('+', 'L:' + p))
        elif fn == 'photon::scoped_rwlock::scoped_rwlock':
            a = e.get('args', [])
            if len(a) >= 2:
                p = f.path(a[0], ctx)
                m = f.const(a[1])
                if p:
                    out.append(('+', 'L:%s#%s' % (p, m)))
        elif fn == 'photon::AtomicRunQ::AtomicRunQ':
            if not e.get('copy'):
                out.append(('+', 'L:RUNQ#fg'))
        elif fn == 'photon::ScopedLockHead::ScopedLockHead':
            out.append(('+H', 'LH:%s' % (decl_name or '?')))
        elif fn in ('photon::ScopedRangeLock::ScopedRangeLock', 'ScopedRangeLock::ScopedRangeLock'):
            a = e.get('args', [])
            if a:
                p = f.path(a[0], ctx)
                if p:
                    out.append(('+', 'L:%s#range' % p))
        return out

    def transfer(self, ev, st):
        if ev.kind == 'declstmt':
            # `locker x(...)`: the construct event precedes the declstmt event; name the LH fact
            return st
        eff = self.effects(ev)
        if ev.kind == 'dtor' and ev.j.get('kind') == 'temp' and ev.x is not None:
            t = 'TMP:%s:%d' % (id(ev.f), ev.f.skip(ev.x))
            if t in st:
                st = st - {t}
        if ev.kind == 'construct' and eff:
            if any(op == '+' for op, _ in eff) and self._declared_var(ev) is None:
                st = st | {'TMP:%s:%d' % (id(ev.f), ev.x)}
            # find the variable being declared (for ScopedLockHead naming)
            name = self._declared_var(ev)
            eff = [(op, ('LH:%s' % name) if op == '+H' and name else fact) for op, fact in eff]
        if not eff:
            return st
        s = set(st)
        for op, fact in eff:
            if op in ('+', '+C', '+H'):
                if fact.startswith('L:'):
                    self._note_type(ev, fact)
                    if fact in s and fact[2:] in self.strict:
                        s.add('XL:' + fact[2:])
                s.add(fact)
            elif op == '-':
                if fact.startswith('L:') and fact not in s and fact[2:] in self.strict:
                    s.add('XU:' + fact[2:])
                s.discard(fact)
            elif op == '-prefix':
                for x in list(s):
                    if x.startswith(fact):
                        s.discard(x)
        return frozenset(s)

    def _note_type(self, ev, fact):
        lp = fact[2:]
        if lp in self.types:
            return
        e = ev.e
        t = None
        if e is not None:
            if ev.kind == 'call':
                t = e.get('rec')
                if strip_targs(t or '') == 'photon::locker':
                    t = e.get('fn')
            elif ev.kind == 'construct':
                t = e.get('fn')
        self.types[lp] = t or '?'

    def _declared_var(self, ev):
        f = ev.f
        f.aliases()
        for d, init in f.inits.items():
            if init is not None and init >= 0 and f.skip(init) == ev.x:
                return f.decls[d]['name']
        return None

    def edge(self, cond, at, st):
        if isinstance(cond[3], tuple) and cond[3][0] == 'tmp':
            # branch "was this temporary constructed?": only lock-carrying temporaries are tracked
            f, _, x, (_, taken) = cond
            xe = f.x(f.skip(x))
            if xe is not None and xe['k'] == 'construct' and strip_targs(xe.get('fn') or '') in ('photon::AtomicRunQ::AtomicRunQ', 'photon::locker::locker'):
                present = ('TMP:%s:%d' % (id(f), f.skip(x))) in st
                if present != taken:
                    return None
            return st
        add = set()
        for key, pol in at:
            # try_lock outcomes
            m = re.match(r'^(.*?)(->|\.)try_lock\(\)( < 0)?$', key)
            if m:
                base, arrow = m.group(1), m.group(2)
                lp = base if arrow == '.' else '*' + base
                # `X.try_lock()` falsy (== 0) or `X.try_lock() < 0` false  => acquired
                if not pol:
                    add.add('L:' + lp)
                continue
            m = re.match(r'^(.*?)(->|\.)background_try_lock\(\)$', key)
            if m and pol:
                base, arrow = m.group(1), m.group(2)
                lp = base if arrow == '.' else ('*' + base)
                add.add('L:%s#bg' % lp)
                continue
            # ScopedLockHead non-null
            if pol and ('LH:' + key) in st:
                add.add('L:%s->lock' % key)
        if add:
            return st | add
        return st


class GuardTracker(Tracker):
    """Tracks truth of branch-condition atoms whose key satisfies `want`.
    `kill(ev, key)` decides whether an event invalidates a fact (default:
    a write to a path that occurs in the key, or a call listed in kill_calls)."""

    def __init__(self, want, kill_calls=(), kill=None, keep_on_write=(), lock_tracker=None, pure=(), def_names=None):
        self.def_names = def_names    # restrict call-result (D:) facts to these locals (None = all); keeps the state space small
        self.pure = set(pure)     # callees whose re-evaluation does not invalidate earlier outcomes (rule states why)
        # lock_tracker: when given, acquiring a lock `X->m` / `X.m` invalidates what was learnt about X's other
        # fields before (a test made before taking the lock that protects the object says nothing afterwards)
        self.lock_tracker = lock_tracker
        self.want = want if callable(want) else (lambda k, pats=want: any(re.search(p, k) for p in pats))
        self.kill_calls = set(kill_calls)
        self.kill = kill
        self.keep_on_write = keep_on_write

    def written_path(self, ev):
        f = ev.f
        e = ev.e
        if e is None:
            return None
        if ev.kind == 'binop' and e['op'] in ASSIGN_OPS:
            return ev.path(e['l'])
        if ev.kind == 'unop' and e['op'] in ('++', '--'):
            return ev.path(e['sub'])
        if ev.kind == 'call' and e.get('ctype') == 'operator' and e.get('op') in ('=', '+=', '-=', '++', '--', '|=', '&=') and 'recv' in e:
            return ev.path(e['recv'])
        if ev.kind == 'call' and e.get('ctype') == 'member' and 'recv' in e:
            fn = strip_targs(e.get('fn') or '')
            short = fn.split('::')[-1]
            if fn.startswith('std::atomic') or fn.startswith('std::__atomic'):
                if short in ('store', 'exchange', 'fetch_add', 'fetch_sub', 'fetch_or', 'fetch_and', 'compare_exchange_strong', 'compare_exchange_weak'):
                    return ev.path(e['recv'])
        return None

    def _defs(self, ev, st):
        """D:<local>=<call text>: the local currently holds the result of that call (reaching definition)."""
        f = ev.f
        e = ev.e
        if e is None:
            return st
        pairs = []
        if ev.kind == 'declstmt':
            for v in e['vars']:
                dj = f.decls[v['decl']]
                if dj['kind'] == 'local' and not dj.get('isref'):
                    pairs.append((dj['name'], v['init']))
        elif ev.kind == 'binop' and e['op'] in ASSIGN_OPS:
            t = f.x(f.skip(e['l']))
            if t is not None and t['k'] == 'ref' and f.decls[t['decl']]['kind'] == 'local':
                pairs.append((t['name'], e['r'] if e['op'] == '=' else None))
        elif ev.kind == 'unop' and e['op'] in ('++', '--'):
            t = f.x(f.skip(e['sub']))
            if t is not None and t['k'] == 'ref':
                pairs.append((t['name'], None))
        if self.def_names is not None:
            pairs = [p for p in pairs if p[0] in self.def_names]
        if not pairs:
            return st
        s = set(st)
        for name, init in pairs:
            for x in list(s):
                if x.startswith('D:%s=' % name):
                    s.discard(x)
            if init is not None and init >= 0:
                ie = f.x(f.skip(init))
                if ie is not None and ie['k'] == 'call' and ie.get('fn') not in ('likely', 'unlikely'):
                    call = f.show(init, ev.ctx)
                    s.add('D:%s=%s' % (name, call))
                    # what is known about the value of that call expression right now is known about the local
                    # that captures it (`if (q.front()->stealable()) { auto th = q.front(); ...`), provided the
                    # rule declared the call pure (same value when re-evaluated without an intervening mutation)
                    if strip_targs(ie.get('fn') or '') in self.pure:
                        for g in list(s):
                            if g.startswith('G:') and call in g:
                                s.add(g.replace(call, name))
        return frozenset(s)

    def transfer(self, ev, st):
        return self._defs(ev, self._kills(ev, st))

    def _kills(self, ev, st):
        gs = [x for x in st if x.startswith('G:')]
        if not gs:
            return st
        wp = self.written_path(ev)
        callee = ev.callee() if ev.kind in ('call', 'construct') else None
        shown = ev.show() if ev.kind == 'call' and (ev.callee() or '') not in self.pure else None
        if shown is not None and '(' not in shown:
            shown = None      # operator-> / conversions print as the object path: not a re-evaluated call
        declared = [ev.f.decls[v['decl']]['name'] for v in ev.e['vars']] if ev.kind == 'declstmt' else ()
        dead = set()
        owners = []
        if self.lock_tracker is not None and ev.kind in ('call', 'construct'):
            for op, fact in self.lock_tracker.effects(ev):
                if op == '+' and fact.startswith('L:'):
                    lp = fact[2:].split('#')[0]
                    m = re.match(r'^(.*)(->|\.)\w+$', lp)
                    if m and m.group(1) not in ('this',):
                        owners.append(m.group(1) + m.group(2))
        for g in gs:
            key = g[2:-2]
            if owners and any(o in key for o in owners):
                dead.add(g)
            elif declared and any(_mentions(key, d) for d in declared):
                dead.add(g)
            elif ev.kind == 'call' and 'errno' in key and _clobbers_errno(ev):
                dead.add(g)
            elif shown and shown in key and ('[' not in key or ('[' + shown + ']') in key):
                dead.add(g)     # the call is evaluated again: its old outcome is no longer the current one
                                # (a call-result fact `[f(a())] == n` dies only when f(a()) itself is re-evaluated, not a())
            elif wp is not None and _mentions(key, wp) and not any(re.search(p, key) for p in self.keep_on_write):
                dead.add(g)
            elif callee and callee in self.kill_calls:
                dead.add(g)
            elif self.kill and self.kill(ev, key):
                dead.add(g)
        if dead:
            return st - dead
        return st

    def edge(self, cond, at, st):
        add = set()
        for key, pol in at:
            if not self.want(key):
                continue
            t = 'G:%s=%s' % (key, 'T' if pol else 'F')
            o = 'G:%s=%s' % (key, 'F' if pol else 'T')
            if o in st:
                return None   # contradicts a fact that is still valid: infeasible edge
            add.add(t)
            # the same fact phrased over the call whose result the tested local holds: it survives a later
            # re-assignment of that local (`ret = read(); if (ret != n) return; ret = 0; ... write()`)
            for d in st:
                if d.startswith('D:'):
                    name, _, call = d[2:].partition('=')
                    if _mentions(key, name):
                        k2 = re.sub(r'(?<![\w>\.])%s(?!\w)' % re.escape(name), '[' + call.replace('\\', '\\\\') + ']', key)
                        add.add('G:%s=%s' % (k2, 'T' if pol else 'F'))
        if add:
            return st | add
        return st


def _clobbers_errno(ev):
    fn = ev.e.get('fn') or ''
    if fn in ('likely', 'unlikely', '__errno_location') or fn.startswith(('std::atomic', 'std::__atomic', 'std::move', 'std::forward')):
        return False
    if is_conversion(ev.e):
        return False
    return True


def _mentions(key, path):
    i = key.find(path)
    while i >= 0:
        before = key[i - 1] if i > 0 else ' '
        after = key[i + len(path)] if i + len(path) < len(key) else ' '
        member_of_other = before == '.' or (before == '>' and i > 1 and key[i - 2] == '-')
        if not (before.isalnum() or before == '_') and not (after.isalnum() or after == '_') and not member_of_other:
            return True
        i = key.find(path, i + 1)
    return False


class ConstTracker(Tracker):
    """Conditional constant propagation for local bool/int variables assigned literals."""

    def __init__(self, names=None):
        self.names = names   # None = all locals

    def _ok(self, f, d):
        dj = f.decls[d]
        if dj['kind'] != 'local':
            return False
        if dj.get('isref'):
            return False
        if self.names is not None and dj['name'] not in self.names:
            return False
        if dj.get('isptr'):
            return True      # only the literal nullptr is ever recorded for pointers (any other assignment clears the fact)
        return dj['type'] in ('bool', 'int', 'unsigned int', 'uint64_t', 'int64_t', 'size_t', 'uint32_t', 'long', 'unsigned long', 'uint16_t', 'uint8_t', 'ssize_t')

    def transfer(self, ev, st):
        f = ev.f
        e = ev.e
        if e is None:
            return st
        if ev.kind == 'declstmt':
            s = None
            for v in e['vars']:
                if self._ok(f, v['decl']):
                    name = f.decls[v['decl']]['name']
                    c = f.const(v['init']) if v['init'] is not None and v['init'] >= 0 else None
                    if c is not None and c != 0 and f.decls[v['decl']].get('isptr'):
                        c = None
                    s = set(st) if s is None else s
                    for x in list(s):
                        if x.startswith('V:%s=' % name):
                            s.discard(x)
                    if c is not None:
                        s.add('V:%s=%d' % (name, c))
            return frozenset(s) if s is not None else st
        tgt = None
        val = None
        if ev.kind == 'binop' and e['op'] in ASSIGN_OPS:
            tgt = e['l']
            if e['op'] == '=':
                val = f.const(e['r'])
        elif ev.kind == 'unop' and e['op'] in ('++', '--', '&'):
            tgt = e['sub']
        if tgt is not None:
            t = f.x(f.skip(tgt))
            if t and t['k'] == 'ref' and self._ok(f, t['decl']):
                name = t['name']
                if val is not None and val != 0 and f.decls[t['decl']].get('isptr'):
                    val = None
                s = set(x for x in st if not x.startswith('V:%s=' % name))
                if val is not None:
                    s.add('V:%s=%d' % (name, val))
                return frozenset(s)
        return st

    def edge(self, cond, at, st):
        vs = {}
        for x in st:
            if x.startswith('V:'):
                n, v = x[2:].rsplit('=', 1)
                vs[n] = int(v)
        if not vs:
            return st
        for key, pol in at:
            if key in vs:
                if (vs[key] != 0) != pol:
                    return None
                continue
            m = re.match(r'^(\w+) (==|<|<=) (-?\d+)$', key)
            if m and m.group(1) in vs:
                a, op, b = vs[m.group(1)], m.group(2), int(m.group(3))
                truth = (a == b) if op == '==' else ((a < b) if op == '<' else (a <= b))
                if truth != pol:
                    return None
        return st


class SeenTracker(Tracker):
    """S:<tag> facts. spec: list of (tag, predicate(ev) -> bool, kills: iterable of tags removed when it fires)."""

    def __init__(self, spec):
        self.spec = [(t[0], t[1], tuple(t[2]) if len(t) > 2 else ()) for t in spec]

    def transfer(self, ev, st):
        s = None
        for tag, pred, kills in self.spec:
            if pred(ev):
                if s is None:
                    s = set(st)
                for k in kills:
                    s.discard('S:' + k)
                s.add('S:' + tag)
        return frozenset(s) if s is not None else st


# ----------------------------------------------------------------------------
# engine
# ----------------------------------------------------------------------------
class Result:
    def __init__(self, G, before, node_in):
        self.G = G
        self.before = before      # (nid, idx) -> set of states (frozensets)
        self.node_in = node_in

    def states_before(self, nid, idx):
        return self.before.get((nid, idx), set())

    def at(self, pred):
        """yield (nid, idx, ev, states) for events matching pred (reachable or not)."""
        for nid, idx, ev in self.G.events():
            if pred(ev):
                yield nid, idx, ev, self.before.get((nid, idx), set())


def run(G, trackers, init=frozenset()):
    """Disjunctive forward analysis. Returns Result."""
    def transfer(ev, st):
        for t in trackers:
            st = t.transfer(ev, st)
        return st

    def edge(cond, st):
        if cond is None:
            return st
        at = cond_atoms(cond, st)
        for t in trackers:
            st = t.edge(cond, at, st)
            if st is None:
                return None
        return st

    inn = {G.entry: {frozenset(init)}}
    work = [G.entry]
    inwork = {G.entry}
    it = 0
    while work:
        it += 1
        if it > 400000:
            raise AnalysisBroken('path analysis did not converge in %s' % G.root.id)
        nid = work.pop()
        inwork.discard(nid)
        node = G.nodes[nid]
        outs = set()
        for st in inn[nid]:
            for ev in node.evs:
                st = transfer(ev, st)
            outs.add(st)
        for s, c in node.succs:
            ns = set()
            for st in outs:
                r = edge(c, st)
                if r is not None:
                    ns.add(r)
            if not ns:
                continue
            old = inn.get(s)
            if old is None:
                inn[s] = set(ns)
                new = True
            else:
                n0 = len(old)
                old |= ns
                new = len(old) != n0
                if len(old) > STATE_CAP:
                    raise AnalysisBroken('state explosion (%d) at block %s of %s' % (len(old), node.bid, G.root.id))
            if new and s not in inwork:
                work.append(s)
                inwork.add(s)
    before = {}
    for nid, sts in inn.items():
        node = G.nodes[nid]
        cur = set(sts)
        for idx, ev in enumerate(node.evs):
            before[(nid, idx)] = cur
            cur = set(transfer(ev, st) for st in cur)
    return Result(G, before, inn)


def held(st):
    return sorted(x[2:] for x in st if x.startswith('L:'))


def has_lock(st, lockpath, mode=None):
    """lock `lockpath` definitely held in state st (any mode unless given)."""
    for x in st:
        if x.startswith('L:'):
            body = x[2:]
            p, _, m = body.partition('#')
            if p == lockpath and (mode is None or m == str(mode)):
                return True
    return False


def has_cond_lock(st, lockpath):
    for x in st:
        if x.startswith('LC:') and x[3:].split('|')[0] == lockpath:
            return True
    return False
