// photon-sa: fact extractor for the PhotonLibOS static checks.
//
// For one translation unit it emits, as JSON, every function definition that
// lives under one of the --root directories (including template
// instantiations and lambdas), as an *event CFG*:
//   * an expression table (resolved callees, member fields with their record,
//     enum constants, literals, casts stripped), one node per clang Stmt;
//   * the clang::CFG blocks (implicit/temporary destructors, initialisers,
//     every sub-expression as its own element) with ordered events and the
//     branch condition of each terminator.
// It emits facts only. All verdicts are computed by /verif/rules (python).
//
// usage: photon-sa --root DIR [--root DIR...] -o OUT.json FILE.cpp -- <compile flags>

#include "clang/AST/ASTConsumer.h"
#include "clang/AST/ASTContext.h"
#include "clang/AST/DeclCXX.h"
#include "clang/AST/DeclTemplate.h"
#include "clang/AST/ExprCXX.h"
#include "clang/AST/RecursiveASTVisitor.h"
#include "clang/Analysis/CFG.h"
#include "clang/Frontend/CompilerInstance.h"
#include "clang/Frontend/FrontendAction.h"
#include "clang/Tooling/CompilationDatabase.h"
#include "clang/Tooling/Tooling.h"
#include "llvm/Support/FileSystem.h"
#include "llvm/Support/JSON.h"
#include "llvm/Support/Path.h"
#include "llvm/Support/raw_ostream.h"

#include <map>
#include <set>
#include <string>
#include <vector>

using namespace clang;
namespace json = llvm::json;

static std::vector<std::string> g_roots;
static std::string g_out;

namespace {

struct FileTable {
  std::map<std::string, int> idx;
  std::vector<std::string> names;
  std::map<std::string, std::string> realcache;
  std::string real(llvm::StringRef p) {
    auto it = realcache.find(p.str());
    if (it != realcache.end()) return it->second;
    llvm::SmallString<256> out;
    std::string r = p.str();
    if (!llvm::sys::fs::real_path(p, out)) r = std::string(out.str());
    realcache[p.str()] = r;
    return r;
  }
  int get(llvm::StringRef p) {
    std::string r = real(p);
    auto it = idx.find(r);
    if (it != idx.end()) return it->second;
    int i = names.size();
    names.push_back(r);
    idx[r] = i;
    return i;
  }
};

static std::vector<std::string> g_excludes = {"/common/conststr.h", "/third_party/", "/_build/"};
static bool underRoot(const std::string &f) {
  for (auto &x : g_excludes)
    if (f.find(x) != std::string::npos) return false;
  for (auto &r : g_roots)
    if (f.compare(0, r.size(), r) == 0) return true;
  return false;
}

static std::string trunc(std::string s, size_t n = 240) {
  if (s.size() > n) { s.resize(n); s += "..."; }
  return s;
}

class Extractor;

// Per-function expression table + CFG emission.
class FuncEmitter {
public:
  FuncEmitter(Extractor &X, ASTContext &C, const FunctionDecl *FD)
      : X(X), Ctx(C), SM(C.getSourceManager()), FD(FD), PP(C.getLangOpts()) {
    PP.SuppressTagKeyword = true;
    PP.Bool = true;
    PP.FullyQualifiedName = true;
    PP.SuppressUnwrittenScope = false;
  }
  json::Object run();

private:
  Extractor &X;
  ASTContext &Ctx;
  SourceManager &SM;
  const FunctionDecl *FD;
  PrintingPolicy PP;
  json::Array nodes;
  std::map<const Stmt *, int> memo;
  std::map<const ValueDecl *, int> declids;
  json::Array decls;

  json::Value loc(SourceLocation L);
  std::string ty(QualType T) { return trunc(T.getAsString(PP)); }
  int declId(const ValueDecl *D);
  const Stmt *strip(const Stmt *S);
  int node(const Stmt *S);
  int addNode(json::Object O) { nodes.push_back(std::move(O)); return nodes.size() - 1; }
  void calleeInfo(json::Object &O, const FunctionDecl *Callee);
  json::Array args(const CallExpr *CE, unsigned from = 0);
  void tryConst(json::Object &O, const Expr *E);
};

class Extractor : public RecursiveASTVisitor<Extractor> {
public:
  explicit Extractor(ASTContext &C) : Ctx(C), SM(C.getSourceManager()) {}
  bool shouldVisitTemplateInstantiations() const { return true; }
  bool shouldVisitImplicitCode() const { return false; }

  ASTContext &Ctx;
  SourceManager &SM;
  FileTable files;
  json::Array funcs;
  json::Array records;
  std::set<const FunctionDecl *> done;
  std::set<const CXXRecordDecl *> recdone;
  std::vector<const FunctionDecl *> pendingLambdas;
  std::map<const CXXRecordDecl *, std::string> lambdaNames;
  std::map<std::string, int> lambdaSeen;

  std::string fileOf(SourceLocation L) {
    if (L.isInvalid()) return "";
    SourceLocation E = SM.getExpansionLoc(L);
    auto F = SM.getFilename(E);
    if (F.empty()) return "";
    return files.real(F);
  }

  static std::string tmplArgs(const FunctionDecl *FD, const PrintingPolicy &PP) {
    std::string s;
    if (auto *TA = FD->getTemplateSpecializationArgs()) {
      llvm::raw_string_ostream OS(s);
      OS << "<";
      bool first = true;
      for (auto &A : TA->asArray()) {
        if (!first) OS << ", ";
        first = false;
        A.print(PP, OS, true);
      }
      OS << ">";
    }
    return s;
  }

  std::string lambdaParent(const FunctionDecl *FD) {
    // enclosing function of a lambda call operator
    const DeclContext *DC = FD->getParent();  // closure class
    if (DC) DC = DC->getParent();
    while (DC && !isa<FunctionDecl>(DC)) DC = DC->getParent();
    if (auto *P = dyn_cast_or_null<FunctionDecl>(DC)) return funcId(P);
    return "";
  }

  std::string funcName(const FunctionDecl *FD) {
    PrintingPolicy PP(Ctx.getLangOpts());
    PP.SuppressTagKeyword = true;
    PP.Bool = true;
    if (auto *MD = dyn_cast<CXXMethodDecl>(FD)) {
      if (MD->getParent()->isLambda()) {
        SourceLocation E = SM.getExpansionLoc(MD->getParent()->getBeginLoc());
        SourceLocation S = SM.getSpellingLoc(MD->getParent()->getBeginLoc());
        std::string p = lambdaParent(FD);
        std::string n = p + "::lambda@" + std::to_string(SM.getExpansionLineNumber(E)) + ":" +
                        std::to_string(SM.getExpansionColumnNumber(E));
        if (S != E)  // several lambdas from one macro expansion
          n += "/" + std::to_string(SM.getSpellingLineNumber(S)) + ":" +
               std::to_string(SM.getSpellingColumnNumber(S));
        // two lambdas spelled by the same macro body in one expansion (DOIO_ONCE(LAMBDA(a), LAMBDA(b))):
        // disambiguate by order of first request, remembered per closure class
        auto it = lambdaNames.find(MD->getParent());
        if (it != lambdaNames.end()) return it->second;
        int k = ++lambdaSeen[n];
        if (k > 1) n += "#" + std::to_string(k);
        lambdaNames[MD->getParent()] = n;
        return n;
      }
    }
    std::string s;
    llvm::raw_string_ostream OS(s);
    FD->printQualifiedName(OS, PP);
    OS.flush();
    s += tmplArgs(FD, PP);
    return s;
  }

  std::string funcSig(const FunctionDecl *FD) {
    PrintingPolicy PP(Ctx.getLangOpts());
    PP.SuppressTagKeyword = true;
    PP.Bool = true;
    std::string s = "(";
    bool first = true;
    for (auto *P : FD->parameters()) {
      if (!first) s += ", ";
      first = false;
      s += P->getType().getAsString(PP);
    }
    s += ")";
    if (auto *MD = dyn_cast<CXXMethodDecl>(FD))
      if (MD->isConst()) s += " const";
    return trunc(s, 400);
  }

  std::string funcId(const FunctionDecl *FD) {
    if (auto *MD = dyn_cast<CXXMethodDecl>(FD))
      if (MD->getParent()->isLambda()) return funcName(FD);
    return funcName(FD) + funcSig(FD);
  }

  bool wanted(const FunctionDecl *FD) {
    if (!FD->doesThisDeclarationHaveABody()) return false;
    if (FD->isDependentContext()) return false;
    if (FD->isTemplated() && !FD->isTemplateInstantiation()) {
      // member of a class template pattern or function template pattern
      if (FD->getDescribedFunctionTemplate()) return false;
    }
    std::string f = fileOf(FD->getLocation());
    return !f.empty() && underRoot(f);
  }

  void emitFunc(const FunctionDecl *FD) {
    if (!done.insert(FD).second) return;
    if (!wanted(FD)) return;
    FuncEmitter E(*this, Ctx, FD);
    funcs.push_back(E.run());
  }

  bool VisitFunctionDecl(FunctionDecl *FD) {
    emitFunc(FD);
    return true;
  }
  bool VisitLambdaExpr(LambdaExpr *LE) {
    if (auto *M = LE->getCallOperator()) {
      if (M->isDependentContext()) return true;
      if (auto *T = LE->getLambdaClass()->getDependentLambdaCallOperator()) {
        // generic lambda: emit its instantiated specialisations
        for (auto *S : T->specializations()) emitFunc(S);
        return true;
      }
      emitFunc(M);
    }
    return true;
  }

  bool VisitCXXRecordDecl(CXXRecordDecl *RD) {
    if (!RD->isThisDeclarationADefinition() || RD->isDependentContext() || RD->isLambda()) return true;
    if (!recdone.insert(RD).second) return true;
    std::string f = fileOf(RD->getLocation());
    if (f.empty() || !underRoot(f)) return true;
    PrintingPolicy PP(Ctx.getLangOpts());
    PP.SuppressTagKeyword = true;
    PP.Bool = true;
    json::Object O;
    std::string s;
    { llvm::raw_string_ostream OS(s); RD->printQualifiedName(OS, PP); }
    if (auto *Spec = dyn_cast<ClassTemplateSpecializationDecl>(RD)) {
      // printQualifiedName omits the args of the innermost specialisation
      std::string a;
      llvm::raw_string_ostream OS(a);
      printTemplateArgumentList(OS, Spec->getTemplateArgs().asArray(), PP);
      OS.flush();
      if (s.find('<', s.rfind("::") == std::string::npos ? 0 : s.rfind("::")) == std::string::npos) s += a;
    }
    O["name"] = s;
    O["file"] = files.get(f);
    O["line"] = (int64_t)SM.getExpansionLineNumber(SM.getExpansionLoc(RD->getLocation()));
    json::Array bases;
    for (auto &B : RD->bases()) bases.push_back(trunc(B.getType().getAsString(PP)));
    O["bases"] = std::move(bases);
    json::Array fields;
    for (auto *F : RD->fields()) {
      json::Object FO;
      FO["name"] = F->getNameAsString();
      FO["type"] = trunc(F->getType().getAsString(PP));
      fields.push_back(std::move(FO));
    }
    O["fields"] = std::move(fields);
    json::Array methods;
    for (auto *M : RD->methods()) {
      if (M->isImplicit()) continue;
      json::Object MO;
      MO["name"] = M->getNameAsString();
      MO["id"] = funcId(M);
      MO["virtual"] = M->isVirtual();
      MO["pure"] = M->isPure();
      MO["body"] = M->hasBody();
      json::Array ov;
      for (auto *Ov : M->overridden_methods()) ov.push_back(funcId(Ov));
      MO["overrides"] = std::move(ov);
      methods.push_back(std::move(MO));
    }
    O["methods"] = std::move(methods);
    records.push_back(std::move(O));
    return true;
  }
};

json::Value FuncEmitter::loc(SourceLocation L) {
  if (L.isInvalid()) return json::Array{-1, 0, 0};
  SourceLocation E = SM.getExpansionLoc(L);
  auto F = SM.getFilename(E);
  int fi = F.empty() ? -1 : X.files.get(F);
  return json::Array{fi, (int64_t)SM.getExpansionLineNumber(E), (int64_t)SM.getExpansionColumnNumber(E)};
}

int FuncEmitter::declId(const ValueDecl *D) {
  auto it = declids.find(D);
  if (it != declids.end()) return it->second;
  int id = decls.size();
  declids[D] = id;
  json::Object O;
  O["name"] = D->getNameAsString();
  O["type"] = ty(D->getType());
  O["loc"] = loc(D->getLocation());
  const char *k = "local";
  if (isa<ParmVarDecl>(D)) k = "param";
  else if (auto *V = dyn_cast<VarDecl>(D)) {
    if (V->isStaticLocal()) k = "staticlocal";
    else if (!V->isLocalVarDecl()) k = "global";
  } else if (isa<BindingDecl>(D)) k = "binding";
  O["kind"] = k;
  if (auto *V = dyn_cast<VarDecl>(D)) {
    bool ref = V->getType()->isReferenceType();
    O["isref"] = ref;
    O["isptr"] = V->getType()->isPointerType();
  }
  decls.push_back(std::move(O));
  return id;
}

const Stmt *FuncEmitter::strip(const Stmt *S) {
  while (S) {
    if (auto *E = dyn_cast<ImplicitCastExpr>(S)) {
      if (E->getCastKind() == CK_UserDefinedConversion) { S = E->getSubExpr(); continue; }
      S = E->getSubExpr();
    } else if (auto *E = dyn_cast<ParenExpr>(S)) S = E->getSubExpr();
    else if (auto *E = dyn_cast<ExprWithCleanups>(S)) S = E->getSubExpr();
    else if (auto *E = dyn_cast<MaterializeTemporaryExpr>(S)) S = E->getSubExpr();
    else if (auto *E = dyn_cast<CXXBindTemporaryExpr>(S)) S = E->getSubExpr();
    else if (auto *E = dyn_cast<ConstantExpr>(S)) S = E->getSubExpr();
    else if (auto *E = dyn_cast<CXXDefaultArgExpr>(S)) S = E->getExpr();
    else if (auto *E = dyn_cast<CXXDefaultInitExpr>(S)) S = E->getExpr();
    else if (auto *E = dyn_cast<SubstNonTypeTemplateParmExpr>(S)) S = E->getReplacement();
    else if (auto *E = dyn_cast<OpaqueValueExpr>(S)) { if (E->getSourceExpr()) S = E->getSourceExpr(); else break; }
    else if (auto *E = dyn_cast<CXXFunctionalCastExpr>(S)) {
      if (E->getCastKind() == CK_ConstructorConversion || E->getCastKind() == CK_NoOp) S = E->getSubExpr(); else break;
    } else break;
  }
  return S;
}

void FuncEmitter::calleeInfo(json::Object &O, const FunctionDecl *Callee) {
  O["fn"] = X.funcName(Callee);
  O["sig"] = X.funcSig(Callee);
  if (auto *MD = dyn_cast<CXXMethodDecl>(Callee)) {
    std::string s;
    llvm::raw_string_ostream OS(s);
    MD->getParent()->printQualifiedName(OS, PP);
    OS.flush();
    O["rec"] = s;
    if (MD->isVirtual()) O["virt"] = true;
    if (MD->isStatic()) O["static"] = true;
  }
  std::string f = X.fileOf(Callee->getLocation());
  if (!f.empty() && underRoot(f)) O["inrepo"] = true;
  if (Callee->isNoReturn()) O["noreturn"] = true;
}

json::Array FuncEmitter::args(const CallExpr *CE, unsigned from) {
  json::Array A;
  for (unsigned i = from; i < CE->getNumArgs(); i++) A.push_back(node(CE->getArg(i)));
  return A;
}

void FuncEmitter::tryConst(json::Object &O, const Expr *E) {
  if (!E || E->isValueDependent() || E->isTypeDependent()) return;
  QualType T = E->getType();
  if (T.isNull() || !(T->isIntegralOrEnumerationType())) return;
  if (!E->isPRValue()) return;
  Expr::EvalResult R;
  if (E->EvaluateAsInt(R, Ctx, Expr::SE_NoSideEffects, /*InConstantContext*/ false)) {
    llvm::APSInt V = R.Val.getInt();
    if (V.isSignedIntN(63) || (V.isUnsigned() && V.isIntN(63))) O["cv"] = V.getExtValue();
    else O["cv"] = llvm::toString(V, 10);
  }
}

int FuncEmitter::node(const Stmt *S0) {
  if (!S0) return -1;
  auto mi = memo.find(S0);
  if (mi != memo.end()) return mi->second;
  const Stmt *S = strip(S0);
  if (S != S0) {
    int id = node(S);
    memo[S0] = id;
    return id;
  }
  json::Object O;
  O["loc"] = loc(S->getBeginLoc());
  const Expr *E = dyn_cast<Expr>(S);
  if (E && !E->getType().isNull()) O["ty"] = ty(E->getType());

  if (auto *CE = dyn_cast<CXXOperatorCallExpr>(S)) {
    O["k"] = "call";
    O["ctype"] = "operator";
    O["op"] = getOperatorSpelling(CE->getOperator());
    if (auto *C = CE->getDirectCallee()) calleeInfo(O, C);
    bool member = CE->getDirectCallee() && isa<CXXMethodDecl>(CE->getDirectCallee()) &&
                  !cast<CXXMethodDecl>(CE->getDirectCallee())->isStatic();
    if (member && CE->getNumArgs() > 0) {
      O["recv"] = node(CE->getArg(0));
      O["args"] = args(CE, 1);
    } else O["args"] = args(CE);
    tryConst(O, CE);
  } else if (auto *CE = dyn_cast<CXXMemberCallExpr>(S)) {
    O["k"] = "call";
    O["ctype"] = "member";
    if (auto *C = CE->getMethodDecl()) calleeInfo(O, C);
    else O["calleeExpr"] = node(CE->getCallee());
    if (auto *ME = dyn_cast<MemberExpr>(strip(CE->getCallee()))) {
      O["recv"] = node(ME->getBase());
      O["arrow"] = ME->isArrow();
      if (ME->hasQualifier()) O["qualified"] = true;  // non-virtual dispatch Base::f()
    } else if (CE->getImplicitObjectArgument()) O["recv"] = node(CE->getImplicitObjectArgument());
    O["args"] = args(CE);
    tryConst(O, CE);
  } else if (auto *CE = dyn_cast<CallExpr>(S)) {
    O["k"] = "call";
    O["ctype"] = "plain";
    if (auto *C = CE->getDirectCallee()) calleeInfo(O, C);
    else O["calleeExpr"] = node(CE->getCallee());
    O["args"] = args(CE);
    tryConst(O, CE);
  } else if (auto *CE = dyn_cast<CXXConstructExpr>(S)) {
    O["k"] = "construct";
    calleeInfo(O, CE->getConstructor());
    json::Array A;
    for (auto *a : CE->arguments()) A.push_back(node(a));
    O["args"] = std::move(A);
    if (CE->getConstructor()->isCopyOrMoveConstructor()) O["copy"] = true;
  } else if (auto *ME = dyn_cast<MemberExpr>(S)) {
    O["k"] = "member";
    auto *D = ME->getMemberDecl();
    O["name"] = D->getNameAsString();
    std::string s;
    { llvm::raw_string_ostream OS(s); D->printQualifiedName(OS, PP); }
    O["field"] = s;
    O["base"] = node(ME->getBase());
    O["arrow"] = ME->isArrow();
    if (isa<CXXMethodDecl>(D)) O["ismethod"] = true;
    if (auto *FDm = dyn_cast<FieldDecl>(D)) {
      std::string r;
      llvm::raw_string_ostream OS(r);
      FDm->getParent()->printQualifiedName(OS, PP);
      OS.flush();
      O["rec"] = r;
    }
  } else if (auto *DR = dyn_cast<DeclRefExpr>(S)) {
    auto *D = DR->getDecl();
    if (auto *EC = dyn_cast<EnumConstantDecl>(D)) {
      O["k"] = "enumconst";
      std::string s;
      { llvm::raw_string_ostream OS(s); EC->printQualifiedName(OS, PP); }
      O["name"] = s;
      O["cv"] = EC->getInitVal().getExtValue();
    } else if (auto *F = dyn_cast<FunctionDecl>(D)) {
      O["k"] = "funcref";
      calleeInfo(O, F);
    } else {
      O["k"] = "ref";
      O["name"] = D->getNameAsString();
      O["decl"] = declId(D);
      if (auto *V = dyn_cast<VarDecl>(D)) {
        if (!V->isLocalVarDecl() && !isa<ParmVarDecl>(V)) {
          std::string s;
          llvm::raw_string_ostream OS(s);
          V->printQualifiedName(OS, PP);
          OS.flush();
          O["qname"] = s;
        }
      }
      if (DR->refersToEnclosingVariableOrCapture()) O["captured"] = true;
      tryConst(O, DR);
      if (auto *V = dyn_cast<VarDecl>(D)) {
        // constexpr / const integral variables with a constant initialiser (WRITE_LOCKED, MAX_..., RLOCK)
        QualType T = V->getType();
        const VarDecl *Def = nullptr;
        if (!T.isNull() && !T->isDependentType() && T.isConstQualified() && T->isIntegralOrEnumerationType() &&
            !T.isVolatileQualified() && V->getAnyInitializer(Def) && Def && Def->getInit() &&
            !Def->getInit()->isValueDependent() && !Def->getInit()->isTypeDependent() &&
            Def->isUsableInConstantExpressions(Ctx)) {
          if (const APValue *AV = Def->evaluateValue())
            if (AV->isInt()) {
              llvm::APSInt I = AV->getInt();
              if (I.isSignedIntN(63) || (I.isUnsigned() && I.isIntN(63))) O["cv"] = I.getExtValue();
            }
        }
      }
    }
  } else if (isa<CXXThisExpr>(S)) {
    O["k"] = "this";
  } else if (auto *L = dyn_cast<IntegerLiteral>(S)) {
    O["k"] = "lit"; O["t"] = "int";
    auto V = L->getValue();
    if (V.isIntN(63)) O["cv"] = (int64_t)V.getZExtValue(); else O["cv"] = llvm::toString(V, 10, false);
  } else if (auto *L = dyn_cast<CXXBoolLiteralExpr>(S)) {
    O["k"] = "lit"; O["t"] = "bool"; O["cv"] = (int64_t)(L->getValue() ? 1 : 0);
  } else if (isa<CXXNullPtrLiteralExpr>(S) || isa<GNUNullExpr>(S)) {
    O["k"] = "lit"; O["t"] = "null"; O["cv"] = 0;
  } else if (auto *L = dyn_cast<CharacterLiteral>(S)) {
    O["k"] = "lit"; O["t"] = "char"; O["cv"] = (int64_t)L->getValue();
  } else if (auto *L = dyn_cast<StringLiteral>(S)) {
    O["k"] = "lit"; O["t"] = "str";
    if (L->getCharByteWidth() == 1) O["s"] = trunc(L->getString().str(), 80);
  } else if (isa<FloatingLiteral>(S)) {
    O["k"] = "lit"; O["t"] = "float";
  } else if (auto *U = dyn_cast<UnaryOperator>(S)) {
    O["k"] = "unop";
    O["op"] = UnaryOperator::getOpcodeStr(U->getOpcode()).str();
    if (U->isPostfix()) O["post"] = true;
    O["sub"] = node(U->getSubExpr());
    tryConst(O, U);
  } else if (auto *B = dyn_cast<BinaryOperator>(S)) {
    O["k"] = "binop";
    O["op"] = B->getOpcodeStr().str();
    O["l"] = node(B->getLHS());
    O["r"] = node(B->getRHS());
    tryConst(O, B);
  } else if (auto *C = dyn_cast<AbstractConditionalOperator>(S)) {
    O["k"] = "cond";
    O["c"] = node(C->getCond());
    O["t"] = node(C->getTrueExpr());
    O["f"] = node(C->getFalseExpr());
  } else if (auto *C = dyn_cast<ExplicitCastExpr>(S)) {
    O["k"] = "cast";
    O["sub"] = node(C->getSubExpr());
    tryConst(O, C);
  } else if (auto *LE = dyn_cast<LambdaExpr>(S)) {
    O["k"] = "lambda";
    if (auto *M = LE->getCallOperator()) O["fnid"] = X.funcId(M);
    json::Array caps;
    for (auto it = LE->capture_init_begin(); it != LE->capture_init_end(); ++it)
      if (*it) caps.push_back(node(*it));
    O["caps"] = std::move(caps);
  } else if (auto *N = dyn_cast<CXXNewExpr>(S)) {
    O["k"] = "new";
    O["type"] = ty(N->getAllocatedType());
    if (N->getInitializer()) O["init"] = node(N->getInitializer());
    if (N->isArray() && N->getArraySize()) O["size"] = node(*N->getArraySize());
    json::Array A;
    for (auto *a : N->placement_arguments()) A.push_back(node(a));
    if (!A.empty()) O["placement"] = std::move(A);
  } else if (auto *D = dyn_cast<CXXDeleteExpr>(S)) {
    O["k"] = "delete";
    O["sub"] = node(D->getArgument());
    if (D->isArrayForm()) O["array"] = true;
    QualType DT = D->getDestroyedType();
    if (!DT.isNull()) O["type"] = ty(DT);
  } else if (auto *A = dyn_cast<ArraySubscriptExpr>(S)) {
    O["k"] = "index";
    O["base"] = node(A->getBase());
    O["idx"] = node(A->getIdx());
  } else if (auto *U = dyn_cast<UnaryExprOrTypeTraitExpr>(S)) {
    O["k"] = "sizeof";
    if (!U->isArgumentType() && U->getArgumentExpr()) O["sub"] = node(U->getArgumentExpr());
    else O["type"] = ty(U->getArgumentType());
    tryConst(O, U);
  } else if (auto *I = dyn_cast<InitListExpr>(S)) {
    O["k"] = "initlist";
    json::Array A;
    for (auto *i : I->inits()) A.push_back(node(i));
    O["subs"] = std::move(A);
  } else if (auto *T = dyn_cast<CXXTemporaryObjectExpr>(S)) {
    (void)T;  // handled by CXXConstructExpr above
  } else if (auto *SE = dyn_cast<StmtExpr>(S)) {
    O["k"] = "stmtexpr";
    (void)SE;
  } else if (auto *R = dyn_cast<ReturnStmt>(S)) {
    O["k"] = "return";
    O["sub"] = node(R->getRetValue());
  } else if (auto *DS = dyn_cast<DeclStmt>(S)) {
    O["k"] = "declstmt";
    json::Array A;
    for (auto *D : DS->decls()) {
      if (auto *V = dyn_cast<VarDecl>(D)) {
        json::Object VO;
        VO["decl"] = declId(V);
        VO["init"] = node(V->getInit());
        A.push_back(std::move(VO));
      }
    }
    O["vars"] = std::move(A);
  } else if (auto *TH = dyn_cast<CXXThrowExpr>(S)) {
    O["k"] = "throw";
    O["sub"] = node(TH->getSubExpr());
  } else if (auto *AE = dyn_cast<AtomicExpr>(S)) {
    O["k"] = "atomicbuiltin";
    O["op"] = (int64_t)AE->getOp();
    json::Array A;
    for (auto *c : AE->children()) A.push_back(node(c));
    O["subs"] = std::move(A);
  } else {
    O["k"] = "other";
    O["cls"] = S->getStmtClassName();
    json::Array A;
    for (auto *c : S->children()) A.push_back(node(c));
    O["subs"] = std::move(A);
    if (E) tryConst(O, E);
  }
  int id = addNode(std::move(O));
  memo[S0] = id;
  return id;
}

static const char *termKind(const Stmt *T) {
  if (!T) return "";
  if (isa<IfStmt>(T)) return "if";
  if (isa<WhileStmt>(T)) return "while";
  if (isa<ForStmt>(T)) return "for";
  if (isa<DoStmt>(T)) return "do";
  if (isa<CXXForRangeStmt>(T)) return "forrange";
  if (isa<SwitchStmt>(T)) return "switch";
  if (isa<AbstractConditionalOperator>(T)) return "?:";
  if (auto *B = dyn_cast<BinaryOperator>(T)) return B->getOpcode() == BO_LAnd ? "&&" : (B->getOpcode() == BO_LOr ? "||" : "binop");
  if (isa<GotoStmt>(T)) return "goto";
  if (isa<BreakStmt>(T)) return "break";
  if (isa<ContinueStmt>(T)) return "continue";
  if (isa<IndirectGotoStmt>(T)) return "igoto";
  if (isa<CXXTryStmt>(T)) return "try";
  return T->getStmtClassName();
}

json::Object FuncEmitter::run() {
  json::Object F;
  F["id"] = X.funcId(FD);
  F["name"] = X.funcName(FD);
  F["sig"] = X.funcSig(FD);
  F["ret"] = ty(FD->getReturnType());
  F["loc"] = loc(FD->getLocation());
  {
    SourceLocation E = SM.getExpansionLoc(FD->getBodyRBrace());
    F["endline"] = (int64_t)SM.getExpansionLineNumber(E);
  }
  const char *kind = "function";
  if (auto *MD = dyn_cast<CXXMethodDecl>(FD)) {
    kind = "method";
    if (isa<CXXConstructorDecl>(MD)) kind = "ctor";
    else if (isa<CXXDestructorDecl>(MD)) kind = "dtor";
    else if (isa<CXXConversionDecl>(MD)) kind = "conversion";
    if (MD->getParent()->isLambda()) {
      kind = "lambda";
      F["parent"] = X.lambdaParent(FD);
    }
    std::string s;
    llvm::raw_string_ostream OS(s);
    MD->getParent()->printQualifiedName(OS, PP);
    OS.flush();
    F["rec"] = s;
    if (MD->isVirtual()) F["virtual"] = true;
    if (MD->isStatic()) F["static"] = true;
  }
  F["kind"] = kind;
  if (FD->isTemplateInstantiation()) F["inst"] = true;
  if (FD->hasAttr<AlwaysInlineAttr>()) F["always_inline"] = true;
  if (FD->isInlined()) F["inline"] = true;
  if (FD->getStorageClass() == SC_Static) F["static_fn"] = true;
  json::Array params;
  for (auto *P : FD->parameters()) params.push_back(declId(P));
  F["params"] = std::move(params);

  CFG::BuildOptions BO;
  BO.AddImplicitDtors = true;
  BO.AddTemporaryDtors = true;
  BO.AddInitializers = true;
  BO.AddEHEdges = false;
  BO.AddCXXDefaultInitExprInCtors = true;
  BO.PruneTriviallyFalseEdges = true;
  BO.setAllAlwaysAdd();
  std::unique_ptr<CFG> G = CFG::buildCFG(FD, FD->getBody(), &Ctx, BO);
  if (!G) {
    F["cfg_failed"] = true;
    F["exprs"] = std::move(nodes);
    F["decls"] = std::move(decls);
    return F;
  }
  json::Array blocks;
  for (const CFGBlock *B : *G) {
    json::Object BOj;
    BOj["id"] = (int64_t)B->getBlockID();
    json::Array succs;
    for (auto I = B->succ_begin(); I != B->succ_end(); ++I) {
      const CFGBlock *SB = I->getReachableBlock();
      succs.push_back(SB ? (int64_t)SB->getBlockID() : (int64_t)-1);
    }
    BOj["succs"] = std::move(succs);
    if (B->hasNoReturnElement()) BOj["noreturn"] = true;
    if (B->getTerminator().isTemporaryDtorsBranch()) {
      json::Object TO;
      TO["k"] = "tmpdtor";
      if (const Stmt *T = B->getTerminatorStmt()) TO["cond"] = node(T);
      BOj["term"] = std::move(TO);
    } else if (const Stmt *T = B->getTerminatorStmt()) {
      json::Object TO;
      TO["k"] = termKind(T);
      TO["loc"] = loc(T->getBeginLoc());
      if (const Stmt *C = B->getTerminatorCondition(false)) TO["cond"] = node(C);
      if (auto *SS = dyn_cast<SwitchStmt>(T)) {
        // labels of successor blocks, positionally
        json::Array labels;
        for (auto I = B->succ_begin(); I != B->succ_end(); ++I) {
          const CFGBlock *SB = I->getReachableBlock() ? I->getReachableBlock() : I->getPossiblyUnreachableBlock();
          json::Object LO;
          if (SB)
            if (const Stmt *L = SB->getLabel()) {
              if (auto *CS = dyn_cast<CaseStmt>(L)) {
                LO["case"] = node(CS->getLHS());
                if (CS->getRHS()) LO["to"] = node(CS->getRHS());
              } else if (isa<DefaultStmt>(L)) LO["default"] = true;
            }
          labels.push_back(std::move(LO));
        }
        TO["labels"] = std::move(labels);
        (void)SS;
      }
      BOj["term"] = std::move(TO);
    }
    json::Array ev;
    for (const CFGElement &El : *B) {
      if (auto CS = El.getAs<CFGStmt>()) {
        const Stmt *S = CS->getStmt();
        if (strip(S) != S) continue;
        if (isa<DeclRefExpr>(S) || isa<IntegerLiteral>(S) || isa<CXXThisExpr>(S) || isa<CXXBoolLiteralExpr>(S) ||
            isa<StringLiteral>(S) || isa<CharacterLiteral>(S) || isa<FloatingLiteral>(S) ||
            isa<CXXNullPtrLiteralExpr>(S) || isa<GNUNullExpr>(S) || isa<UnaryExprOrTypeTraitExpr>(S))
          continue;
        if (auto *ME = dyn_cast<MemberExpr>(S))
          if (isa<CXXMethodDecl>(ME->getMemberDecl())) continue;
        json::Object EO;
        EO["e"] = "x";
        EO["x"] = node(S);
        ev.push_back(std::move(EO));
      } else if (auto CI = El.getAs<CFGInitializer>()) {
        const CXXCtorInitializer *I = CI->getInitializer();
        json::Object EO;
        EO["e"] = "init";
        if (I->isAnyMemberInitializer() && I->getAnyMember()) {
          std::string s;
          llvm::raw_string_ostream OS(s);
          I->getAnyMember()->printQualifiedName(OS, PP);
          OS.flush();
          EO["field"] = s;
          EO["name"] = I->getAnyMember()->getNameAsString();
        } else if (I->isBaseInitializer()) EO["base"] = ty(QualType(I->getBaseClass(), 0));
        EO["x"] = node(I->getInit());
        EO["loc"] = loc(I->getSourceLocation());
        ev.push_back(std::move(EO));
      } else if (auto D = El.getAs<CFGImplicitDtor>()) {
        json::Object EO;
        EO["e"] = "dtor";
        if (auto AD = El.getAs<CFGAutomaticObjDtor>()) {
          EO["kind"] = "auto";
          const VarDecl *V = AD->getVarDecl();
          EO["decl"] = declId(V);
          EO["name"] = V->getNameAsString();
          EO["loc"] = loc(AD->getTriggerStmt() ? AD->getTriggerStmt()->getEndLoc() : V->getLocation());
        } else if (auto TD = El.getAs<CFGTemporaryDtor>()) {
          EO["kind"] = "temp";
          EO["x"] = node(TD->getBindTemporaryExpr());
          EO["loc"] = loc(TD->getBindTemporaryExpr()->getBeginLoc());
        } else if (auto DD = El.getAs<CFGDeleteDtor>()) {
          EO["kind"] = "delete";
          EO["x"] = node(DD->getDeleteExpr());
        } else if (auto MD = El.getAs<CFGMemberDtor>()) {
          EO["kind"] = "member";
          EO["name"] = MD->getFieldDecl()->getNameAsString();
        } else if (El.getAs<CFGBaseDtor>()) {
          EO["kind"] = "base";
        }
        if (const CXXDestructorDecl *DD = D->getDestructorDecl(Ctx)) {
          json::Object CO;
          calleeInfo(CO, DD);
          EO["dtor"] = std::move(CO);
        }
        ev.push_back(std::move(EO));
      }
    }
    BOj["ev"] = std::move(ev);
    blocks.push_back(std::move(BOj));
  }
  F["entry"] = (int64_t)G->getEntry().getBlockID();
  F["exit"] = (int64_t)G->getExit().getBlockID();
  F["blocks"] = std::move(blocks);
  F["exprs"] = std::move(nodes);
  F["decls"] = std::move(decls);
  return F;
}

class Consumer : public ASTConsumer {
public:
  void HandleTranslationUnit(ASTContext &Ctx) override {
    if (Ctx.getDiagnostics().hasUncompilableErrorOccurred()) {
      llvm::errs() << "photon-sa: translation unit has errors; facts would be incomplete\n";
      errored = true;
    }
    Extractor X(Ctx);
    X.TraverseDecl(Ctx.getTranslationUnitDecl());
    json::Object Top;
    Top["errors"] = errored;
    Top["functions"] = std::move(X.funcs);
    Top["records"] = std::move(X.records);
    json::Array fs;
    for (auto &n : X.files.names) fs.push_back(n);
    Top["files"] = std::move(fs);
    std::error_code EC;
    llvm::raw_fd_ostream OS(g_out, EC);
    if (EC) { llvm::errs() << "cannot write " << g_out << "\n"; errored = true; return; }
    OS << json::Value(std::move(Top));
  }
  static bool errored;
};
bool Consumer::errored = false;

class Action : public ASTFrontendAction {
public:
  std::unique_ptr<ASTConsumer> CreateASTConsumer(CompilerInstance &, llvm::StringRef) override {
    return std::make_unique<Consumer>();
  }
};

}  // namespace

int main(int argc, const char **argv) {
  std::vector<std::string> files;
  std::vector<std::string> flags;
  int i = 1;
  for (; i < argc; i++) {
    std::string a = argv[i];
    if (a == "--") { i++; break; }
    if (a == "--root" && i + 1 < argc) g_roots.push_back(argv[++i]);
    else if (a == "-o" && i + 1 < argc) g_out = argv[++i];
    else files.push_back(a);
  }
  for (; i < argc; i++) flags.push_back(argv[i]);
  if (files.size() != 1 || g_out.empty() || g_roots.empty()) {
    llvm::errs() << "usage: photon-sa --root DIR -o OUT.json FILE -- flags\n";
    return 2;
  }
  flags.push_back("-resource-dir");
  flags.push_back("/usr/lib/llvm-14/lib/clang/14.0.6");
  flags.push_back("-Wno-everything");
  flags.push_back("-fsyntax-only");
  clang::tooling::FixedCompilationDatabase DB(".", flags);
  clang::tooling::ClangTool Tool(DB, files);
  int rc = Tool.run(clang::tooling::newFrontendActionFactory<Action>().get());
  if (rc != 0 || Consumer::errored) return 2;
  return 0;
}
