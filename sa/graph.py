"""Event graphs over photon-sa CFGs: construction, inlining/splicing, dataflow.

A Graph is a list of Nodes (one per clang CFG block, more after inlining).
Each Node holds an ordered list of events (Ev) and successor edges; an edge
may carry the branch condition that was taken: (func, ctx, expr id, polarity).
"""
from .facts import AnalysisBroken, strip_targs

ASSIGN_OPS = ('=', '+=', '-=', '*=', '/=', '|=', '&=', '^=', '<<=', '>>=', '%=')


class Ev:
    __slots__ = ('f', 'ctx', 'kind', 'x', 'j', 'depth', 'via')

    def __init__(self, f, ctx, kind, x, j, depth=0, via=None):
        self.f = f
        self.ctx = ctx
        self.kind = kind      # expr kind ('call','construct','member','binop',...), or 'dtor' / 'init'
        self.x = x            # expr id or None
        self.j = j            # raw event json
        self.depth = depth
        self.via = via        # description of the inlining chain

    @property
    def e(self):
        return self.f.x(self.x) if self.x is not None else None

    def loc(self):
        if self.x is not None and self.x >= 0:
            return self.f.loc(self.x)
        if 'loc' in self.j:
            return self.f.locl(self.j['loc'])
        return '%s:%d' % (self.f.file, self.f.line)

    def callee(self):
        if self.kind in ('call', 'construct'):
            return strip_targs(self.e.get('fn'))
        if self.kind == 'dtor':
            d = self.j.get('dtor')
            return strip_targs(d['fn']) if d else None
        return None

    def path(self, i):
        return self.f.path(i, self.ctx)

    def show(self, i=None):
        if i is None:
            i = self.x
        if i is None:
            if self.kind == 'dtor':
                return '~%s(%s)' % (self.callee(), self.j.get('name', ''))
            return self.kind
        return self.f.show(i, self.ctx)

    def recv_path(self):
        e = self.e
        if e is not None and 'recv' in e:
            return self.path(e['recv'])
        return None

    def arg_path(self, n):
        e = self.e
        a = e.get('args', [])
        if n < len(a):
            return self.path(a[n])
        return None

    def arg_show(self, n):
        e = self.e
        a = e.get('args', [])
        if n < len(a):
            return self.f.show(a[n], self.ctx)
        return None

    def __repr__(self):
        return '<Ev %s %s @%s>' % (self.kind, self.show()[:60], self.loc().split('/')[-1])


class Node:
    __slots__ = ('id', 'evs', 'succs', 'f', 'ctx', 'bid', 'noreturn', 'is_exit')

    def __init__(self, id, f, ctx, bid):
        self.id = id
        self.evs = []
        self.succs = []   # list of (node id, cond or None)
        self.f = f
        self.ctx = ctx
        self.bid = bid
        self.noreturn = False
        self.is_exit = False


COND_TERMS = ('if', 'while', 'for', 'do', '?:', '&&', '||', 'forrange')


class Graph:
    def __init__(self, prog, f, ctx=None):
        self.prog = prog
        self.root = f
        self.nodes = {}
        self._next = 0
        self.entry, self.exit = self._instantiate(f, ctx or {}, 0, None)
        self.nodes[self.exit].is_exit = True
        self.nodes[self.exit].evs.append(Ev(f, ctx or {}, 'exit', None, {}, 0, None))
        self._preds = None
        self.inlined = []

    # -- construction ------------------------------------------------------------
    def _new(self, f, ctx, bid):
        n = Node(self._next, f, ctx, bid)
        self.nodes[n.id] = n
        self._next += 1
        return n

    def _instantiate(self, f, ctx, depth, via):
        if f.entry is None:
            raise AnalysisBroken('no CFG for %s' % f.id)
        m = {}
        for bid in f.blocks:
            m[bid] = self._new(f, ctx, bid)
        for bid, b in f.blocks.items():
            n = m[bid]
            n.noreturn = bool(b.get('noreturn'))
            for ev in b['ev']:
                if ev['e'] == 'x':
                    k = f.x(ev['x'])['k']
                    n.evs.append(Ev(f, ctx, k, ev['x'], ev, depth, via))
                elif ev['e'] == 'dtor':
                    n.evs.append(Ev(f, ctx, 'dtor', ev.get('x'), ev, depth, via))
                elif ev['e'] == 'init':
                    n.evs.append(Ev(f, ctx, 'init', ev.get('x'), ev, depth, via))
            term = b.get('term')
            succs = b['succs']
            if n.noreturn:
                continue
            if term and term['k'] in COND_TERMS and len(succs) == 2 and 'cond' in term:
                # NB: with every sub-expression in the CFG, `if (A && B)` is tested in a join block whose
                # condition is the whole `A && B`; the short-circuit edges carry A alone.  The whole
                # condition is kept; analysis.atoms() refines it with what is already known on the path.
                c = term['cond']
                for s, pol in zip(succs, (True, False)):
                    if s >= 0:
                        n.succs.append((m[s].id, (f, ctx, c, pol)))
            elif term and term['k'] == 'tmpdtor' and len(succs) == 2 and 'cond' in term:
                for s, pol in zip(succs, (True, False)):
                    if s >= 0:
                        n.succs.append((m[s].id, (f, ctx, term['cond'], ('tmp', pol))))
            elif term and term['k'] == 'switch':
                labels = term.get('labels', [])
                for idx, s in enumerate(succs):
                    if s < 0:
                        continue
                    lab = labels[idx] if idx < len(labels) else {}
                    c = None
                    if 'case' in lab and 'cond' in term:
                        c = (f, ctx, term['cond'], ('case', f.const(lab['case'])))
                    elif 'cond' in term:
                        c = (f, ctx, term['cond'], ('default', None))
                    n.succs.append((m[s].id, c))
            else:
                for s in succs:
                    if s >= 0:
                        n.succs.append((m[s].id, None))
        return m[f.entry].id, m[f.exit].id

    def preds(self):
        if self._preds is None:
            p = {i: [] for i in self.nodes}
            for n in self.nodes.values():
                for s, c in n.succs:
                    p[s].append((n.id, c))
            self._preds = p
        return self._preds

    # -- inlining -----------------------------------------------------------------
    def _splice(self, node, idx, callee, ctx, depth, via):
        """Insert callee's graph after event idx of node."""
        cont = self._new(node.f, node.ctx, node.bid)
        cont.evs = node.evs[idx + 1:]
        cont.succs = node.succs
        cont.noreturn = node.noreturn
        cont.is_exit = node.is_exit
        node.is_exit = False
        node.noreturn = False
        node.evs = node.evs[:idx + 1]
        en, ex = self._instantiate(callee, ctx, depth, via)
        node.succs = [(en, None)]
        self.nodes[ex].succs = [(cont.id, None)]
        self._preds = None
        self.inlined.append((callee.id, via))
        return cont

    def lambda_of_var(self, f, decl):
        """If local `decl` of f is initialised from a lambda (directly or via
        make_defer(lambda)), return the lambda's Func."""
        f.aliases()
        init = f.inits.get(decl)
        seen = 0
        while init is not None and init >= 0 and seen < 6:
            seen += 1
            e = f.x(f.skip(init))
            if e is None:
                return None
            if e['k'] == 'lambda':
                return self.prog.funcs.get(e.get('fnid'))
            if e['k'] in ('call', 'construct') and e.get('args'):
                init = e['args'][0]
                continue
            return None
        return None

    def inline(self, names=(), defer=True, local_lambdas=True, max_depth=3, lambda_args=()):
        """Splice callee bodies:
           * DEFER: destructor of a Defer<lambda> local -> the lambda body;
           * calls of local lambda variables `f()`;
           * calls to functions whose template-stripped name is in `names`;
           * lambdas passed as arguments to functions in `lambda_args` are
             spliced right after the call (they run during the call).
        """
        names = set(names)
        lambda_args = set(lambda_args)
        changed = True
        guard = 0
        while changed:
            changed = False
            guard += 1
            if guard > 2000:
                raise AnalysisBroken('inlining did not converge in %s' % self.root.id)
            for nid in list(self.nodes):
                node = self.nodes[nid]
                for idx, ev in enumerate(node.evs):
                    if ev.j.get('_done'):
                        continue
                    if ev.depth >= max_depth:
                        continue
                    tgt = None
                    ctx = None
                    if ev.kind == 'dtor' and defer and ev.j.get('kind') == 'auto':
                        d = ev.j.get('dtor')
                        if d and strip_targs(d['fn']) == 'Defer::~Defer':
                            lam = self.lambda_of_var(ev.f, ev.j['decl'])
                            if lam is None:
                                raise AnalysisBroken('DEFER without resolvable lambda at %s' % ev.loc())
                            tgt, ctx = lam, dict(ev.ctx)
                    elif ev.kind == 'call':
                        e = ev.e
                        fn = strip_targs(e.get('fn')) or ''
                        if local_lambdas and e.get('ctype') == 'operator' and e.get('op') == '()' and 'recv' in e:
                            r = ev.f.x(ev.f.skip(e['recv']))
                            if r and r['k'] == 'ref':
                                lam = self.lambda_of_var(ev.f, r['decl'])
                                if lam is not None:
                                    tgt = lam
                                    ctx = dict(ev.ctx)
                                    ctx = self._bind(ev, lam, ctx, e.get('args', []))
                        if tgt is None and fn in names:
                            cands = self.prog.by_nname.get(fn, [])
                            cands = [c for c in cands if c.sig == e.get('sig') ] or cands
                            if cands:
                                callee = cands[0]
                                ctx = {'subst': {}, 'captures': {}}
                                if 'recv' in e:
                                    rp = ev.path(e['recv'])
                                    if rp is not None and e.get('arrow') is False and not rp.startswith('&'):
                                        rp = '&' + rp if not rp.startswith('*') else rp[1:]
                                    ctx['this'] = rp if rp is not None else '?'
                                ctx = self._bind(ev, callee, ctx, e.get('args', []))
                                tgt = callee
                        if tgt is None and fn in lambda_args:
                            for a in e.get('args', []):
                                ae = ev.f.x(ev.f.skip(a))
                                lam = None
                                if ae is not None and ae['k'] == 'lambda':
                                    lam = self.prog.funcs.get(ae.get('fnid'))
                                elif ae is not None and ae['k'] == 'ref':
                                    lam = self.lambda_of_var(ev.f, ae['decl'])
                                if lam is not None:
                                    tgt, ctx = lam, dict(ev.ctx)
                                    break
                    if tgt is not None:
                        ev.j = dict(ev.j)
                        ev.j['_done'] = True
                        via = (ev.via + ' > ' if ev.via else '') + '%s@%s' % (tgt.name.split('::')[-1], ev.loc().split('/')[-1])
                        self._splice(node, idx, tgt, ctx, ev.depth + 1, via)
                        changed = True
                        break
                if changed:
                    break
        return self

    def _bind(self, ev, callee, ctx, args):
        ctx = dict(ctx)
        subst = dict(ctx.get('subst', {}))
        for pd, a in zip(callee.j.get('params', []), args):
            pname = callee.decls[pd]['name']
            if not pname:
                continue
            p = ev.path(a)
            if p is None:
                p = ev.f.show(a, ev.ctx)
            subst[pname] = p
        ctx['subst'] = subst
        return ctx

    # -- iteration ----------------------------------------------------------------
    def events(self):
        for nid, n in self.nodes.items():
            for idx, ev in enumerate(n.evs):
                yield nid, idx, ev

    def reachable(self):
        seen = set()
        st = [self.entry]
        while st:
            n = st.pop()
            if n in seen:
                continue
            seen.add(n)
            for s, _ in self.nodes[n].succs:
                st.append(s)
        return seen

    def prune(self, infeasible):
        """Remove edges (nid, succ_index) judged infeasible."""
        for nid, si in sorted(infeasible, key=lambda t: -t[1]):
            del self.nodes[nid].succs[si]
        self._preds = None

    # -- dataflow -------------------------------------------------------------------
    def forward(self, init, transfer, edge=None, meet='must'):
        """Forward dataflow. States are frozensets; meet 'must' = intersection,
        'may' = union. transfer(ev, state) -> state ; edge(cond, state) -> state
        (cond may be None).  Returns (before, node_in, node_out) where
        before[(nid, idx)] is the state before that event."""
        reach = self.reachable()
        inn = {self.entry: frozenset(init)}
        out = {}
        work = [self.entry]
        inwork = {self.entry}
        it = 0
        while work:
            it += 1
            if it > 200000:
                raise AnalysisBroken('dataflow did not converge in %s' % self.root.id)
            nid = work.pop()
            inwork.discard(nid)
            st = inn[nid]
            for ev in self.nodes[nid].evs:
                st = transfer(ev, st)
            out[nid] = st
            for s, c in self.nodes[nid].succs:
                ns = edge(c, st) if edge else st
                if ns is None:
                    continue   # edge infeasible under this state
                old = inn.get(s)
                if old is None:
                    new = ns
                elif meet == 'must':
                    new = old & ns
                else:
                    new = old | ns
                if new != old:
                    inn[s] = new
                    if s not in inwork:
                        work.append(s)
                        inwork.add(s)
        before = {}
        for nid in reach:
            if nid not in inn:
                continue
            st = inn[nid]
            for idx, ev in enumerate(self.nodes[nid].evs):
                before[(nid, idx)] = st
                st = transfer(ev, st)
        return before, inn, out

    def backward_must(self, transfer, exit_state=frozenset(), edge=None):
        """Backward must-analysis: state at a point = facts guaranteed on every
        path from that point to a function exit.  Nodes without successors that
        are not the exit (noreturn) contribute TOP (nothing to guarantee).
        transfer(ev, state_after) -> state_before.
        Returns after[(nid, idx)] = state just after that event."""
        TOP = None
        outs = {nid: TOP for nid in self.nodes}
        ins = {nid: TOP for nid in self.nodes}
        preds = self.preds()
        work = list(self.nodes)
        it = 0

        def node_out(nid):
            n = self.nodes[nid]
            if n.is_exit:
                return frozenset(exit_state)
            res = TOP
            for s, c in n.succs:
                v = ins[s]
                if edge is not None and v is not None:
                    v = edge(c, v)
                if v is None:
                    continue
                res = v if res is None else (res & v)
            return res

        while work:
            it += 1
            if it > 200000:
                raise AnalysisBroken('backward dataflow did not converge in %s' % self.root.id)
            nid = work.pop()
            o = node_out(nid)
            outs[nid] = o
            st = o
            if st is not None:
                for ev in reversed(self.nodes[nid].evs):
                    st = transfer(ev, st)
            if st != ins[nid]:
                ins[nid] = st
                for p, _ in preds[nid]:
                    work.append(p)
        after = {}
        for nid, n in self.nodes.items():
            st = node_out(nid)
            for idx in range(len(n.evs) - 1, -1, -1):
                after[(nid, idx)] = st
                if st is not None:
                    st = transfer(n.evs[idx], st)
        return after, ins


def is_write_target(f, x):
    """set of expr ids in f that are written (lhs of assignment, ++/--)."""
    pass
